/* expected-output fifo and unit matcher.
 * A fifo holds the units one producer still has to emit, in order.
 * Records: kind(1) len(2, little endian) bytes.
 *   K_EXACT : bytes must appear verbatim
 *   K_FLEX  : like K_EXACT but byte NLMARK stands for a newline "\n" or "\r\n"
 *   K_RESULT: bytes[0] = mask (bit0 OK allowed, bit1 ERROR allowed), bytes[1] = crlf;
 *             stands for NL ("OK" | "ERROR") NL with NL fixed by crlf
 */
#include "wint.h"
#include <string.h>

int fifo_empty(const struct fifo *f) { return f->len == 0; }

void fifo_push(struct fifo *f, int kind, const uint8_t *bytes, int n)
{
        if (f->len + 3 + n > W_FIFO)
                mcx_fatal("expected-output fifo overflow (scenario produces more than %d pending bytes)", W_FIFO);
        f->data[f->len] = (uint8_t)kind;
        f->data[f->len + 1] = (uint8_t)(n & 0xff);
        f->data[f->len + 2] = (uint8_t)(n >> 8);
        memcpy(&f->data[f->len + 3], bytes, (size_t)n);
        f->len = (uint16_t)(f->len + 3 + n);
}

int fifo_head(const struct fifo *f, int *kind, const uint8_t **bytes, int *n)
{
        if (f->len == 0) return 0;
        *kind = f->data[0];
        *n = f->data[1] | (f->data[2] << 8);
        *bytes = &f->data[3];
        return 1;
}

void fifo_pop(struct fifo *f)
{
        int n = f->data[1] | (f->data[2] << 8);
        int tot = 3 + n;
        memmove(f->data, f->data + tot, (size_t)(f->len - tot));
        memset(f->data + (f->len - tot), 0, (size_t)tot);
        f->len = (uint16_t)(f->len - tot);
        f->pos = 0; f->open = 0; f->sub = 0; f->alt = 0;
}

int fifo_head_is_result(const struct fifo *f) { return f->len && f->data[0] == K_RESULT; }

void fifo_set_result_mask(struct fifo *f, int mask)
{
        if (!fifo_head_is_result(f) || f->open) mcx_fatal("fifo_set_result_mask misuse");
        f->data[3] = (uint8_t)mask;
}

static int result_string(int which, int crlf, uint8_t *out)
{
        int n = 0;
        if (crlf) out[n++] = '\r';
        out[n++] = '\n';
        const char *s = which ? "ERROR" : "OK";
        for (; *s; s++) out[n++] = (uint8_t)*s;
        if (crlf) out[n++] = '\r';
        out[n++] = '\n';
        return n;
}

int unit_step(struct fifo *f, uint8_t b, int commit)
{
        int kind, n;
        const uint8_t *u;
        if (!fifo_head(f, &kind, &u, &n)) return 0;
        uint16_t pos = f->pos; uint8_t sub = f->sub, alt = f->alt;
        int res = 0;
        if (kind == K_EXACT) {
                if (pos < n && u[pos] == b) { pos++; res = (pos == n) ? 2 : 1; }
        } else if (kind == K_FLEX) {
                if (pos < n) {
                        if (u[pos] == NLMARK) {
                                if (b == '\r' && !sub) { sub = 1; res = 1; }
                                else if (b == '\n') { sub = 0; pos++; res = (pos == n) ? 2 : 1; }
                        } else if (!sub && u[pos] == b) { pos++; res = (pos == n) ? 2 : 1; }
                }
        } else if (kind == K_RESULT) {
                if (pos == 0) alt = u[0] & 3;
                uint8_t s0[12], s1[12];
                int n0 = result_string(0, u[1], s0), n1 = result_string(1, u[1], s1);
                uint8_t na = 0;
                int done = 0;
                if ((alt & 1) && pos < n0 && s0[pos] == b) { na |= 1; if (pos + 1 == n0) done = 1; }
                if ((alt & 2) && pos < n1 && s1[pos] == b) { na |= 2; if (pos + 1 == n1) done = 1; }
                if (na) { alt = na; pos++; res = done ? 2 : 1; }
        }
        if (commit && res) { f->pos = pos; f->sub = sub; f->alt = alt; }
        return res;
}

void fifo_describe_head(const struct fifo *f, char *out, size_t n)
{
        int kind, len;
        const uint8_t *u;
        if (!fifo_head(f, &kind, &u, &len)) { snprintf(out, n, "(nothing)"); return; }
        size_t o = 0;
        if (kind == K_RESULT) { snprintf(out, n, "result code (mask %d) at offset %d", u[0], f->pos); return; }
        for (int i = 0; i < len && o + 6 < n; i++) {
                uint8_t c = u[i];
                if (c == NLMARK) o += (size_t)snprintf(out + o, n - o, "<NL>");
                else if (c == '\n') o += (size_t)snprintf(out + o, n - o, "\\n");
                else if (c == '\r') o += (size_t)snprintf(out + o, n - o, "\\r");
                else if (c < 32 || c > 126) o += (size_t)snprintf(out + o, n - o, "\\x%02x", c);
                else out[o++] = (char)c;
        }
        if (o < n) snprintf(out + o, n - o, " (at offset %d)", f->pos);
}

/* pattern with NLMARK against data */
int flex_eq(const uint8_t *pat, int plen, const uint8_t *data, size_t dlen)
{
        size_t d = 0;
        for (int i = 0; i < plen; i++) {
                if (pat[i] == NLMARK) {
                        if (d < dlen && data[d] == '\r') d++;
                        if (d >= dlen || data[d] != '\n') return 0;
                        d++;
                } else {
                        if (d >= dlen || data[d] != pat[i]) return 0;
                        d++;
                }
        }
        return d == dlen;
}
