/* mcx command line: configure the world, explore it, print one JSON line */
#include "wint.h"
#include <stdlib.h>
#include <string.h>
#include <ctype.h>

static int unescape(const char *s, char *out, int max)
{
        int n = 0;
        while (*s && n < max) {
                if (*s == '\\') {
                        s++;
                        if (*s == 'n') { out[n++] = '\n'; s++; }
                        else if (*s == 'r') { out[n++] = '\r'; s++; }
                        else if (*s == '0') { out[n++] = 0; s++; }
                        else if (*s == 's') { out[n++] = ' '; s++; }
                        else if (*s == 'x') { char h[3] = {s[1], s[2], 0}; out[n++] = (char)strtol(h, NULL, 16); s += 3; }
                        else out[n++] = *s++;
                } else out[n++] = *s++;
        }
        return n;
}

static int code_of(const char *t)
{
        static const struct { const char *n; int v; } tab[] = {
                {"ERROR", -1}, {"DATA_OK", 0}, {"DATA_NEXT", 1}, {"NEXT", 2}, {"OK", 3}, {"HOLD", 4},
                {"HEXIT_OK", 5}, {"HEXIT_ERR", 6}, {"LIST", 7}};
        for (size_t i = 0; i < sizeof tab / sizeof tab[0]; i++)
                if (!strcmp(t, tab[i].n)) return tab[i].v;
        return atoi(t);
}

static void parse_codes(const char *s, int8_t *out, int *n)
{
        char *d = strdup(s), *save = NULL;
        *n = 0;
        for (char *t = strtok_r(d, ",", &save); t; t = strtok_r(NULL, ",", &save)) {
                if (*n >= 12) mcx_fatal("too many codes");
                out[(*n)++] = (int8_t)code_of(t);
        }
        free(d);
}

static unsigned parse_mon(const char *s)
{
        unsigned m = 0;
        char *d = strdup(s), *save = NULL;
        for (char *t = strtok_r(d, ",", &save); t; t = strtok_r(NULL, ",", &save)) {
                if (!strcmp(t, "ALL")) m |= P_ALL;
                else if (t[0] == 'C') m |= 1u << atoi(t + 1);
        }
        free(d);
        return m;
}

static int find_cmd(const char *name)
{
        for (int i = 0; i < W.ncmd; i++) if (!strcmp(W.cmd[i].name, name)) return i;
        mcx_fatal("event refers to unknown command '%s'", name);
}

static void parse_events(const char *s)
{
        char *d = strdup(s), *save = NULL;
        W.nev = 0;
        for (char *t = strtok_r(d, ",", &save); t; t = strtok_r(NULL, ",", &save)) {
                char *c = strrchr(t, ':');
                if (!c) mcx_fatal("bad event spec");
                *c = 0;
                if (W.nev >= W_MAXEV) mcx_fatal("too many events");
                W.ev[W.nev].cmd = find_cmd(t);
                W.ev[W.nev].type = (c[1] == 'T') ? CAT_CMD_TYPE_TEST : CAT_CMD_TYPE_READ;
                W.nev++;
        }
        free(d);
}

static char cfgline[400000];

void print_ws_json(FILE *f)
{
        fprintf(f, "\"lines_done\":%llu,\"lines_ok\":%llu,\"lines_err\":%llu,\"lines_blank\":%llu,\"lines_hold\":%llu,", (unsigned long long)WS.lines_done,
                (unsigned long long)WS.lines_ok, (unsigned long long)WS.lines_err, (unsigned long long)WS.lines_blank, (unsigned long long)WS.lines_hold);
        fprintf(f, "\"units_cmd\":%llu,\"units_evt\":%llu,\"both_want_flush\":%llu,", (unsigned long long)WS.units_cmd, (unsigned long long)WS.units_evt,
                (unsigned long long)WS.both_want_flush);
        fprintf(f, "\"ev_accepted\":%llu,\"ev_full\":%llu,\"ev_done\":%llu,\"ev_silent\":%llu,", (unsigned long long)WS.ev_accepted, (unsigned long long)WS.ev_full,
                (unsigned long long)WS.ev_done, (unsigned long long)WS.ev_silent);
        fprintf(f, "\"stutters_checked\":%llu,\"ok_repeat_checked\":%llu,\"lock_faults\":%llu,\"unlock_faults\":%llu,", (unsigned long long)WS.stutters_checked,
                (unsigned long long)WS.ok_repeat_checked, (unsigned long long)WS.lock_faults, (unsigned long long)WS.unlock_faults);
        fprintf(f, "\"busy_ok_checked\":%llu,\"busy_busy\":%llu,\"hold_yes\":%llu,", (unsigned long long)WS.busy_ok_checked, (unsigned long long)WS.busy_busy,
                (unsigned long long)WS.hold_yes);
        fprintf(f, "\"overlong\":%llu,\"ambiguous_eq\":%llu,\"ambiguous_lf\":%llu,\"notfound\":%llu,\"drain_err\":%llu,\"implicit_hits\":%llu,\"test_forms\":%llu,\"list_lines\":%llu,",
                (unsigned long long)WS.overlong, (unsigned long long)WS.ambiguous_eq, (unsigned long long)WS.ambiguous_lf, (unsigned long long)WS.notfound,
                (unsigned long long)WS.drain_err, (unsigned long long)WS.implicit_hits, (unsigned long long)WS.test_forms, (unsigned long long)WS.list_lines);
        fprintf(f, "\"wvar_ok\":%llu,\"wvar_err\":%llu,\"rvar\":%llu,\"flag_flips\":%llu,\"reinits\":%llu,\"refusal_probes\":%llu,\"refusal_probe_calls\":%llu,\"canary_checks\":%llu,", (unsigned long long)WS.wvar_ok,
                (unsigned long long)WS.wvar_err, (unsigned long long)WS.rvar, (unsigned long long)WS.flag_flips, (unsigned long long)WS.reinits, (unsigned long long)WS.refusal_probes, (unsigned long long)WS.refusal_probe_calls, (unsigned long long)WS.canary_checks);
        fprintf(f, "\"api_calls\":[");
        for (int i = 0; i < A__KINDS; i++) fprintf(f, "%s%llu", i ? "," : "", (unsigned long long)WS.api_calls[i]);
        fprintf(f, "],\"handler_calls\":[");
        for (int i = 0; i < 8; i++) fprintf(f, "%s%llu", i ? "," : "", (unsigned long long)WS.handler_calls[i / 4][i % 4]);
        int classes = 0;
        for (int i = 0; i < 128; i++) if (WS.outcome_classes[i]) classes++;
        fprintf(f, "],\"code_classes\":%d,\"samples\":[", classes);
        for (int i = 0; i < WS.nsamples; i++) {
                fprintf(f, "%s\"", i ? "," : "");
                for (const char *p = WS.samples[i]; *p; p++) {
                        if (*p == '"' || *p == '\\') fprintf(f, "\\%c", *p);
                        else if ((unsigned char)*p < 32) fputc(' ', f);
                        else fputc(*p, f);
                }
                fprintf(f, "\"");
        }
        fprintf(f, "]");
}

int main(int argc, char **argv)
{
        wcfg_defaults(&W);
        W.ubuf_size = -1;
        struct mcx_opts o = {0};
        o.stop_at_first = 1;
        o.replay_dir = "replays";
        const char *replay = NULL;
        const char *tag = "mcx";
        const char *events = NULL;
        const char *table = "+A:U";
        int verbose = 0;
        const char *feedhex = NULL, *setvars = NULL;
        for (int i = 1; i < argc; i++) {
                const char *a = argv[i];
#define ARG() (i + 1 < argc ? argv[++i] : (mcx_fatal("missing value for %s", a), ""))
                if (!strcmp(a, "--prop")) w_prop = ARG();
                else if (!strcmp(a, "--tag")) tag = ARG();
                else if (!strcmp(a, "--table")) table = ARG();
                else if (!strcmp(a, "--cap")) W.cap = atoi(ARG());
                else if (!strcmp(a, "--shared")) W.shared = atoi(ARG());
                else if (!strcmp(a, "--ubuf")) W.ubuf_size = atoi(ARG());
                else if (!strcmp(a, "--mutex")) W.use_mutex = atoi(ARG());
                else if (!strcmp(a, "--faults")) W.mutex_faults = atoi(ARG());
                else if (!strcmp(a, "--refuse-read")) W.refuse_read = atoi(ARG());
                else if (!strcmp(a, "--refuse-write")) W.refuse_write = atoi(ARG());
                else if (!strcmp(a, "--scribble")) W.scribble = atoi(ARG());
                else if (!strcmp(a, "--codes-W")) parse_codes(ARG(), W.codes[HK_W], &W.ncodes[HK_W]);
                else if (!strcmp(a, "--codes-R")) parse_codes(ARG(), W.codes[HK_R], &W.ncodes[HK_R]);
                else if (!strcmp(a, "--codes-U")) parse_codes(ARG(), W.codes[HK_U], &W.ncodes[HK_U]);
                else if (!strcmp(a, "--codes-T")) parse_codes(ARG(), W.codes[HK_T], &W.ncodes[HK_T]);
                else if (!strcmp(a, "--ecodes-R")) parse_codes(ARG(), W.ecodes[HK_R], &W.necodes[HK_R]);
                else if (!strcmp(a, "--ecodes-T")) parse_codes(ARG(), W.ecodes[HK_T], &W.necodes[HK_T]);
                else if (!strcmp(a, "--max-inv")) W.max_inv = atoi(ARG());
                else if (!strcmp(a, "--tok")) W.tok_mode = atoi(ARG());
                else if (!strcmp(a, "--varcb-fail")) W.varcb_fail = atoi(ARG());
                else if (!strcmp(a, "--h-trigger")) W.h_trigger = atoi(ARG());
                else if (!strcmp(a, "--h-hold-exit")) W.h_hold_exit = atoi(ARG());
                else if (!strcmp(a, "--ev")) events = ARG();
                else if (!strcmp(a, "--trig-budget")) W.trig_budget = atoi(ARG());
                else if (!strcmp(a, "--flag-budget")) W.flag_budget = atoi(ARG());
                else if (!strcmp(a, "--reinit-budget")) W.reinit_budget = atoi(ARG());
                else if (!strcmp(a, "--act")) {
                        const char *v = ARG();
                        W.act_trigger = strstr(v, "trigger") != NULL;
                        W.act_hold_exit = strstr(v, "hold") != NULL;
                        W.act_queries = strstr(v, "queries") != NULL;
                        W.act_flags = strstr(v, "flags") != NULL;
                        W.act_reinit = strstr(v, "reinit") != NULL;
                }
                else if (!strcmp(a, "--gen-mode")) { const char *v = ARG(); W.gen.mode = !strcmp(v, "free") ? GEN_FREE : !strcmp(v, "none") ? 2 : GEN_GRAMMAR; }
                else if (!strcmp(a, "--name-alpha")) { memset(W.gen.name_alpha, 0, sizeof W.gen.name_alpha); unescape(ARG(), W.gen.name_alpha, sizeof W.gen.name_alpha - 1); }
                else if (!strcmp(a, "--args-alpha")) { memset(W.gen.args_alpha, 0, sizeof W.gen.args_alpha); unescape(ARG(), W.gen.args_alpha, sizeof W.gen.args_alpha - 1); }
                else if (!strcmp(a, "--dev")) W.gen.dev_n = unescape(ARG(), W.gen.dev_alpha, sizeof W.gen.dev_alpha);
                else if (!strcmp(a, "--free-alpha")) W.gen.free_n = unescape(ARG(), W.gen.free_alpha, sizeof W.gen.free_alpha);
                else if (!strcmp(a, "--free-len")) W.gen.free_len = atoi(ARG());
                else if (!strcmp(a, "--max-name")) W.gen.max_name = atoi(ARG());
                else if (!strcmp(a, "--max-args")) W.gen.max_args = atoi(ARG());
                else if (!strcmp(a, "--D")) W.gen.D = atoi(ARG());
                else if (!strcmp(a, "--lines")) W.gen.lines = atoi(ARG());
                else if (!strcmp(a, "--lower")) W.gen.lower_prefix = atoi(ARG());
                else if (!strcmp(a, "--crlf")) W.gen.crlf = atoi(ARG());
                else if (!strcmp(a, "--blank")) W.gen.blank = atoi(ARG());
                else if (!strcmp(a, "--suffix-mask")) W.gen.suffix_mask = atoi(ARG());
                else if (!strcmp(a, "--mon")) W.mon = parse_mon(ARG());
                else if (!strcmp(a, "--line-max")) W.line_max = atoi(ARG());
                else if (!strcmp(a, "--feed-hex")) feedhex = ARG();
                else if (!strcmp(a, "--setvars")) setvars = ARG();
                else if (!strcmp(a, "--liveness")) w_liveness = atoi(ARG());
                else if (!strcmp(a, "--merge-doomed")) W.merge_doomed = atoi(ARG());
                else if (!strcmp(a, "--wo-fill")) W.wo_fill = atoi(ARG());
                else if (!strcmp(a, "--var-init")) W.var_init = atoi(ARG());
                else if (!strcmp(a, "--str-full")) W.str_full = atoi(ARG());
                else if (!strcmp(a, "--refusal-probe")) W.refusal_probe = atoi(ARG());
                else if (!strcmp(a, "--stale-usize")) W.stale_usize = atoi(ARG());
                else if (!strcmp(a, "--io-trigger")) W.io_trigger = atoi(ARG());
                else if (!strcmp(a, "--alias-group")) W.alias_group = atoi(ARG());
                else if (!strcmp(a, "--interfere")) W.interfere = atoi(ARG());
                else if (!strcmp(a, "--max-states")) o.max_states = strtoull(ARG(), NULL, 10);
                else if (!strcmp(a, "--deadline")) o.deadline_s = atof(ARG());
                else if (!strcmp(a, "--replay-dir")) o.replay_dir = ARG();
                else if (!strcmp(a, "--replay")) replay = ARG();
                else if (!strcmp(a, "-v")) verbose = 1;
                else mcx_fatal("unknown option %s", a);
        }
        if (table_parse(&W, table)) mcx_fatal("cannot parse table '%s'", table);
        if (events) parse_events(events);
        W.buf_size = W.shared == 2 ? 2 * W.cap + 1 : W.shared ? 2 * W.cap : W.cap;   /* shared 2: odd-sized shared buffer */
        if (W.ubuf_size < 0) W.ubuf_size = W.cap;
        /* record the full command line so that a replay file is self-contained */
        size_t cl = 0;
        cl += (size_t)snprintf(cfgline + cl, sizeof cfgline - cl, "argv");
        for (int i = 1; i < argc; i++) {
                if (!strcmp(argv[i], "--replay")) { i++; continue; }
                cl += (size_t)snprintf(cfgline + cl, sizeof cfgline - cl, " '%s'", argv[i]);
        }
        cl += (size_t)snprintf(cfgline + cl, sizeof cfgline - cl, "\nring %d\n", (int)CAT_UNSOLICITED_CMD_BUFFER_SIZE);
        o.header = cfgline;
        o.tag = tag;
        world_build();
        mcx_crash_prop = w_prop;
        mcx_verbose = verbose;
        if (replay && feedhex) replay = NULL;   /* sweep replay files carry the whole case in --feed-hex */
        if (feedhex) {
                static uint8_t bytes[150000]; int n = 0;
                if (feedhex[0] == '@') {        /* hex text in a file: one argument string cannot exceed the kernel's 128 KiB limit */
                        FILE *hf = fopen(feedhex + 1, "r");
                        if (!hf) mcx_fatal("cannot open %s", feedhex + 1);
                        static char hexbuf[300002];
                        size_t got = fread(hexbuf, 1, sizeof hexbuf - 1, hf); fclose(hf);
                        while (got && (hexbuf[got - 1] == '\n' || hexbuf[got - 1] == ' ')) got--;
                        hexbuf[got] = 0; feedhex = hexbuf;
                }
                for (const char *p = feedhex; p[0] && p[1] && n < (int)sizeof bytes; p += 2) { char h[3] = {p[0], p[1], 0}; bytes[n++] = (uint8_t)strtol(h, NULL, 16); }
                if (setvars) {
                        char *d = strdup(setvars), *save = NULL;
                        for (char *t = strtok_r(d, ",", &save); t; t = strtok_r(NULL, ",", &save)) {
                                int c, v; char hx[200];
                                if (sscanf(t, "%d:%d:%199s", &c, &v, hx) != 3) mcx_fatal("bad --setvars");
                                uint8_t val[64] = {0}; int k = 0;
                                for (const char *p = hx; p[0] && p[1] && k < 64; p += 2) { char h[3] = {p[0], p[1], 0}; val[k++] = (uint8_t)strtol(h, NULL, 16); }
                                w_set_var(c, v, val);
                        }
                        free(d);
                }
                mcx_violation_clear();
                int calls = world_run_bytes(bytes, n);
                char a[2048], b[2048];
                w_esc(a, sizeof a, bytes, n); w_esc(b, sizeof b, (const uint8_t *)w_output(), w_output_len());
                printf("FEED: %d cat_service calls; input '%s' -> output '%s'\n", calls, a, b);
                if (mcx_violated()) { printf("REPLAY: violation reproduced: property=%s %s\n", mcx_violation_prop(), mcx_violation_msg()); return 1; }
                printf("REPLAY: no violation\n");
                return 0;
        }
        if (replay) {
                int r = mcx_replay_file(&world_model, replay, 1);
                if (r == 1) printf("output so far: %d bytes\n", w_output_len());
                return r;
        }
        struct mcx_stats st;
        int nv = mcx_explore(&world_model, &o, &st);
        char vmsg[1024]; snprintf(vmsg, sizeof vmsg, "%s", mcx_violation_msg());
        long live_max = 0; uint64_t live_nodes = 0;
        if (!nv && w_liveness) {
                mcx_hash_t wit;
                live_max = world_liveness_check(&live_nodes, &wit);
                long bound = 64 + 16 * (W.ncmd + 1) + 4 * W_FIFO;
                if (live_max == -1) { nv = 1; snprintf(vmsg, sizeof vmsg, "C15: livelock: the input-exhausted, output-accepting continuation cycles without ever returning OK (state %016llx)", (unsigned long long)wit.a); }
                else if (live_max == -2 && st.exhaustive) mcx_fatal("liveness: state %016llx has no quiet continuation recorded", (unsigned long long)wit.a);
                else if (live_max > bound) { nv = 1; snprintf(vmsg, sizeof vmsg, "C15: %ld cat_service calls needed to reach quiescence, linear bound is %ld", live_max, bound); }
        }
        if (!nv) world_resolve_samples();
        printf("{\"tag\":\"%s\",\"states\":%llu,\"transitions\":%llu,\"max_depth\":%llu,\"revisits\":%llu,\"exhaustive\":%s,\"capped\":%d,\"wall_s\":%.3f,\"violations\":%d,",
               tag, (unsigned long long)st.states, (unsigned long long)st.transitions, (unsigned long long)st.max_depth, (unsigned long long)st.revisits,
               st.exhaustive ? "true" : "false", st.capped, st.wall_s, nv);
        print_ws_json(stdout);
        if (w_liveness) printf(",\"live_nodes\":%llu,\"live_max_dist\":%ld", (unsigned long long)live_nodes, live_max);
        if (nv) {
                printf(",\"replay\":\"%s\",\"msg\":\"", mcx_last_replay_path());
                for (const char *p = vmsg; *p; p++) {
                        if (*p == '"' || *p == '\\') printf("\\%c", *p);
                        else if ((unsigned char)*p < 32) printf(" ");
                        else putchar(*p);
                }
                printf("\"");
        }
        printf("}\n");
        return nv ? 1 : 0;
}
