#!/usr/bin/env python3
"""mkprompts.py <suffix>  (e.g. f): writes /tmp/prompt_<id>_<suffix>.txt for every property: the only text a seeding sub-agent
receives (property text, its own scratch worktree /tmp/wt_<id>_<suffix>, one-line descriptions of the ideas already used)."""
import json, sys, os, glob
sfx = sys.argv[1]
HERE = os.path.dirname(os.path.dirname(os.path.abspath(__file__)))
props = {json.loads(l)['id']: json.loads(l) for l in open(os.path.join(HERE, 'properties.jsonl'))}
base = '''You are working on a scratch git worktree of the C library marcinbor85/cAT located at /tmp/wt_{id}_{sfx} (a single-file, allocation-free, non-blocking AT command parser: src/cat.c, src/cat.h, tests/ with 30 ctest tests, built with cmake). Work ONLY inside /tmp/wt_{id}_{sfx}. Do NOT read, list or write anything under /verif or /repo, and do not use `git worktree` or `git stash` commands (the stash is shared with other people working on sibling worktrees; to test against the original code save your change with `git diff -- src > /tmp/wt_{id}_{sfx}/_seed/patch.diff`, run `git checkout -- src`, and later re-apply with `git apply`).

Here is a semantic property of the library that should always hold:

Property {id}: {title}

Statement: {statement}

Quantified over: {quant}

YOUR TASK: make a small, realistic change to src/cat.c (the kind of bug a maintainer could plausibly introduce during a refactor, an optimisation, a "robustness" or "small improvement" patch, or while adding a small feature) that BREAKS this property, inside the domain the property is stated for, while
 (1) it still compiles without warnings (the library is compiled with -Werror -Wall -Wextra -pedantic), and
 (2) ALL 30 existing tests still pass. Build and test with:
       cmake -G Ninja -B _build -S . >/dev/null && cmake --build _build && ctest --test-dir _build -j8
The breakage should be something a careful, systematic tester is LEAST likely to have covered. Dimensions to think about: a particular interleaving of API calls (cat_trigger_unsolicited_*, cat_hold_exit, cat_is_*, cat_search_*, cat_get_processed_command, cat_is_unsolicited_event_buffered) with cat_service, also from inside handlers and io callbacks; io read or write callbacks refusing at one particular point or for a long run, or returning unusual values; multi-step histories (state left behind by an earlier, unusual line, event, hold or failed operation, cat_init called again on a used object); unusual descriptors (several groups, many commands, name/prefix relations, registration order, handler/variable/flag/access combinations, unusual variable sizes, empty names or descriptions, NULL vs non-NULL optional fields, the same command or variable object registered twice, commands shared between groups); unusual buffer geometry; particular handler return-code sequences; particular variable VALUES (extremes, signs, embedded special characters, long texts); particular byte values or positions in the input (CR placement, NUL, high bytes, lower case, spaces); two cooperating code sites that each look fine alone. Stay inside the documented contract of the API (for example: handlers keep within the size they are told; event handlers do not return HOLD; descriptors satisfy the assertions of cat_init and have a command buffer of at least 6 bytes and at least one byte per four commands in the command part). Do not change cat.h's public API.

{hint}{n} other engineers have ALREADY used the following ideas, so do NOT use them or close variants; choose something clearly different in mechanism and in code location:
{ideas}

Also write a DEMONSTRATION: a small standalone C program demo.c that uses only the public API of src/cat.h, is compiled as `gcc -I src demo.c src/cat.c -o demo` (add -DCAT_UNSOLICITED_CMD_BUFFER_SIZE=<n> or -lpthread if you need them and say so), exits 0 on the ORIGINAL code and exits non-zero with a short message on the CHANGED code.

DELIVERABLES, all in the directory /tmp/wt_{id}_{sfx}/_seed/ :
  - patch.diff : output of `git diff -- src` run in /tmp/wt_{id}_{sfx} with your change in place (it must apply with `git apply` on the original tree)
  - demo.c     : the demonstration program
  - NOTES.md   : what the change is, why it breaks the property, exactly what is needed for it to manifest, the exact compile command for the demo (on a line starting with `gcc`), and the commands you ran with their results for: (a) the 30 tests pass WITH the change, (b) demo exits 0 WITHOUT the change, (c) demo exits non-zero WITH the change.
At the very end restore the source tree to its original state (`git checkout -- src`) so that patch.diff is the only carrier of the change, and remove the _build directory and any demo binary. Do not commit anything.

Report back in a few lines: what you changed, what it needs to manifest, and confirmation of (a), (b), (c).'''
# optional third argument: a sentence steering the agents towards code that no earlier seed touched
HINT = (sys.argv[2] + "\n\n") if len(sys.argv) > 2 else ""
for pid, p in props.items():
    ms = []
    for mp in sorted(glob.glob(os.path.join(HERE, 'seeded', pid + '*', 'meta.json'))):
        m = json.load(open(mp))
        if m.get('summary'): ms.append(m['summary'])
    ideas = "\n".join("  %d. %s" % (i + 1, t) for i, t in enumerate(ms))
    open('/tmp/prompt_%s_%s.txt' % (pid, sfx), 'w').write(base.format(id=pid, sfx=sfx, title=p['title'], statement=p['statement'], quant=p['quantifier']['text'], n=len(ms), ideas=ideas, hint=HINT))
print('ok')
