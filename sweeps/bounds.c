/* C03: size sweeps around every limit, meant to run under ASan/UBSan (exact-size
 * heap blocks) and with canaries in the plain build.  Verdicts: sanitizer
 * report hooks, canaries, and the reference model (which also decides whether
 * a response must fit). */
#include "sweep.h"

static int run(const uint8_t *l, int n)
{
        SW.cases++;
        int r = sw_line(l, n);
        if (!r && (SW.runs % 20011) == 1) sw_sample(l, n, "bounds");
        return r;
}

static int run_evt(int ev)
{
        SW.cases++;
        world_init();
        mcx_violation_clear();
        do_trigger(ev, 0);
        static const uint8_t none[1] = {0};
        return sw_feed(none, 0, NULL);
}

static void layout(int cap, int mode)
{
        /* mode 0 separate, 1 shared even, 2 shared odd buffer size */
        sw_caps(cap, mode);
        W.line_max = 3 * cap + 60;
        W.mon = P_ALL;
}

/* 1. argument length sweep for every capacity and layout */
static int family_args(void)
{
        int idx = 0;
        uint8_t line[400];
        for (int cap = 6; cap <= 24; cap++)
                for (int mode = 0; mode < 3; mode++)
                        for (int kind = 0; kind < 2; kind++, idx++) {
                                if (idx % SW.nshards != SW.shard) continue;
                                struct wcmd *c = sw_table(1);
                                strcpy(c[0].name, "+V");
                                c[0].hmask = HM_W;
                                if (kind) {
                                        c[0].nvar = 4;
                                        c[0].var[0] = (struct wvar){.type = CAT_VAR_BUF_STRING, .size = 5, .access = CAT_VAR_ACCESS_READ_WRITE};
                                        c[0].var[1] = (struct wvar){.type = CAT_VAR_BUF_HEX, .size = 3, .access = CAT_VAR_ACCESS_READ_WRITE};
                                        c[0].var[2] = (struct wvar){.type = CAT_VAR_INT_DEC, .size = 2, .access = CAT_VAR_ACCESS_READ_WRITE};
                                        c[0].var[3] = (struct wvar){.type = CAT_VAR_NUM_HEX, .size = 4, .access = CAT_VAR_ACCESS_WRITE_ONLY};
                                }
                                layout(cap, mode);
                                world_build();
                                snprintf(SW.extra, sizeof SW.extra, "family=args cap=%d layout=%d kind=%d", cap, mode, kind);
                                static const uint8_t FILL[6] = {'a', ',', 0xff, '"', '0', '\\'};
                                for (int L = 0; L <= 3 * cap; L++)
                                        for (int f = 0; f < 6; f++) {
                                                int n = 5;
                                                memcpy(line, "AT+V=", 5);
                                                for (int i = 0; i < L; i++) line[n++] = FILL[(f + (f >= 3 ? i : 0)) % 6];
                                                line[n++] = '\n';
                                                if (run(line, n)) return 1;
                                                if (!kind && L > 0) {
                                                        for (int p = 0; p < L; p += (L > 8 ? L / 4 : 1)) { uint8_t k = line[5 + p]; line[5 + p] = 0; if (run(line, n)) return 1; line[5 + p] = k; }
                                                }
                                        }
                                /* well-formed variable lists growing past the capacity */
                                if (kind) {
                                        static const char *TXT[] = {"\"ab\"", "\"ab\",A1", "\"ab\",A1B2C3", "\"abcd\",A1B2C3,-32768", "\"a\\\"\\n\",A1B2C3,-32768,0xFFFFFFFF",
                                                                    "\"abcd\",A1B2C3,-32768,0x00000000000000000001", "\"abcde\"", "\"abcd\",A1B2C3D4"};
                                        for (unsigned t = 0; t < sizeof TXT / sizeof TXT[0]; t++) {
                                                int n = snprintf((char *)line, sizeof line, "AT+V=%s\n", TXT[t]);
                                                if (run(line, n)) return 1;
                                        }
                                }
                                if (sw_expired()) return 0;
                        }
        return 0;
}

/* 2. response formatting with the capacity swept around the exact need, both machines */
static int family_format(void)
{
        static const cat_var_type T[5] = {CAT_VAR_INT_DEC, CAT_VAR_UINT_DEC, CAT_VAR_NUM_HEX, CAT_VAR_BUF_HEX, CAT_VAR_BUF_STRING};
        static const int SZ[5] = {4, 2, 1, 3, 6};
        int idx = 0;
        for (int a = 0; a < 5; a++) for (int b = 0; b < 5; b++) for (int nvar = 1; nvar <= 3; nvar++) for (int hd = 0; hd < 2; hd++, idx++) {
                if (idx % SW.nshards != SW.shard) continue;
                for (int cap = 6; cap <= 48; cap++)
                        for (int mode = 0; mode < 3; mode++) {
                                struct wcmd *c = sw_table(1);
                                strcpy(c[0].name, "+F");
                                c[0].nvar = (uint8_t)nvar;
                                c[0].hmask = hd ? (HM_R | HM_T) : 0;
                                int ty[3] = {a, b, (a + b + 1) % 5};
                                for (int i = 0; i < nvar; i++) {
                                        c[0].var[i] = (struct wvar){.type = T[ty[i]], .size = (uint8_t)SZ[ty[i]], .access = (cat_var_access)((i + a) % 3)};
                                        c[0].var[i].has_name = (uint8_t)(i & 1); strcpy(c[0].var[i].name, "v");
                                }
                                if (b & 1) { c[0].has_desc = 1; strcpy(c[0].desc, "dsc"); }
                                layout(cap, mode);
                                W.nev = 2; W.ev[0].cmd = 0; W.ev[0].type = CAT_CMD_TYPE_READ; W.ev[1].cmd = 0; W.ev[1].type = CAT_CMD_TYPE_TEST;
                                int8_t dok[] = {CAT_RETURN_STATE_DATA_OK};
                                for (int k = 0; k < 4; k++) { memcpy(W.codes[k], dok, 1); W.ncodes[k] = 1; memcpy(W.ecodes[k], dok, 1); W.necodes[k] = 1; }
                                W.var_init = cap & 1 ? 100 : 0;
                                world_build();
                                snprintf(SW.extra, sizeof SW.extra, "family=format types=%d,%d nvar=%d handlers=%d cap=%d layout=%d", a, b, nvar, hd, cap, mode);
                                static const uint8_t rd[] = "AT+F?\n", ts[] = "AT+F=?\n";
                                if (run(rd, 6) || run(ts, 7) || run_evt(0) || run_evt(1)) return 1;
                        }
                if (sw_expired()) return 0;
        }
        W.var_init = 0;
        return 0;
}

/* 3. separate unsolicited buffer of every size from 0, command buffer fixed */
static int family_ubuf(void)
{
        int idx = 0;
        for (int us = 0; us <= 40; us++, idx++) {
                if (idx % SW.nshards != SW.shard) continue;
                for (int hd = 0; hd < 2; hd++) {
                        struct wcmd *c = sw_table(2);
                        strcpy(c[0].name, "+U"); c[0].nvar = 2; c[0].hmask = hd ? (HM_R | HM_T) : 0;
                        c[0].var[0] = (struct wvar){.type = CAT_VAR_BUF_STRING, .size = 8, .access = CAT_VAR_ACCESS_READ_WRITE, .has_name = 1};
                        strcpy(c[0].var[0].name, "s");
                        c[0].var[1] = (struct wvar){.type = CAT_VAR_NUM_HEX, .size = 4, .access = CAT_VAR_ACCESS_READ_ONLY};
                        c[0].has_desc = 1; strcpy(c[0].desc, "descr");
                        strcpy(c[1].name, "+LONGNAMEDCOMMAND"); c[1].hmask = hd ? HM_R : 0; c[1].nvar = 1;
                        c[1].var[0] = (struct wvar){.type = CAT_VAR_UINT_DEC, .size = 4, .access = CAT_VAR_ACCESS_READ_WRITE};
                        sw_caps(32, 0);
                        W.ubuf_size = us;
                        W.line_max = 80; W.mon = P_ALL;
                        W.nev = 3; W.ev[0].cmd = 0; W.ev[0].type = CAT_CMD_TYPE_READ; W.ev[1].cmd = 0; W.ev[1].type = CAT_CMD_TYPE_TEST; W.ev[2].cmd = 1; W.ev[2].type = CAT_CMD_TYPE_READ;
                        int8_t dok[] = {CAT_RETURN_STATE_DATA_OK};
                        for (int k = 0; k < 4; k++) { memcpy(W.codes[k], dok, 1); W.ncodes[k] = 1; memcpy(W.ecodes[k], dok, 1); W.necodes[k] = 1; }
                        world_build();
                        snprintf(SW.extra, sizeof SW.extra, "family=ubuf unsolicited_buf_size=%d handlers=%d", us, hd);
                        for (int e = 0; e < 3; e++) if (run_evt(e)) return 1;
                        static const uint8_t rd[] = "AT+U?\n";
                        if (run(rd, 6)) return 1;
                }
        }
        return 0;
}

/* 4. names and descriptions of every length around the capacity; command list; many commands */
static int family_names(void)
{
        int idx = 0;
        uint8_t line[200];
        for (int cap = 6; cap <= 12; cap++)
                for (int nl = 0; nl <= cap + 2; nl++)
                        for (int dl = 0; dl <= cap + 2; dl += (dl < 3 ? 1 : 3), idx++) {
                                if (idx % SW.nshards != SW.shard) continue;
                                for (int mode = 0; mode < 2; mode++) {
                                        struct wcmd *c = sw_table(2);
                                        for (int i = 0; i < nl; i++) c[0].name[i] = (char)(i ? 'N' : '+');
                                        c[0].name[nl] = 0;
                                        c[0].hmask = HM_U | HM_R | HM_W | HM_T;
                                        c[0].nvar = 1; c[0].var[0] = (struct wvar){.type = CAT_VAR_UINT_DEC, .size = 1, .access = CAT_VAR_ACCESS_READ_WRITE};
                                        if (dl) { c[0].has_desc = 1; for (int i = 0; i < dl; i++) c[0].desc[i] = 'd'; c[0].desc[dl] = 0; }
                                        strcpy(c[1].name, "#L"); c[1].hmask = HM_U;
                                        layout(cap, mode);
                                        int8_t lst[] = {CAT_RETURN_STATE_PRINT_CMD_LIST_OK}, dok[] = {CAT_RETURN_STATE_DATA_OK};
                                        memcpy(W.codes[HK_U], lst, 1); W.ncodes[HK_U] = 1;
                                        memcpy(W.codes[HK_R], dok, 1); W.ncodes[HK_R] = 1; memcpy(W.codes[HK_T], dok, 1); W.ncodes[HK_T] = 1;
                                        memcpy(W.ecodes[HK_R], dok, 1); W.necodes[HK_R] = 1; memcpy(W.ecodes[HK_T], dok, 1); W.necodes[HK_T] = 1;
                                        W.nev = 2; W.ev[0].cmd = 0; W.ev[0].type = CAT_CMD_TYPE_READ; W.ev[1].cmd = 0; W.ev[1].type = CAT_CMD_TYPE_TEST;
                                        world_build();
                                        snprintf(SW.extra, sizeof SW.extra, "family=names cap=%d name_len=%d desc_len=%d layout=%d", cap, nl, dl, mode);
                                        static const char *SUF[4] = {"", "?", "=7", "=?"};
                                        for (int s = 0; s < 4; s++) {
                                                int n = snprintf((char *)line, sizeof line, "AT%s%s\n", c[0].name, SUF[s]);
                                                if (run(line, n)) return 1;
                                        }
                                        static const uint8_t ls[] = "AT#L\n";
                                        if (run(ls, 5) || run_evt(0) || run_evt(1)) return 1;
                                }
                        }
        /* as many commands as the match table can hold: 4 * capacity */
        for (int cap = 6; cap <= 10; cap++, idx++) {
                if (idx % SW.nshards != SW.shard) continue;
                for (int mode = 0; mode < 3; mode++) {
                        int N = 4 * cap;
                        struct wcmd *c = sw_table(N);
                        for (int i = 0; i < N; i++) { snprintf(c[i].name, sizeof c[i].name, "%c%c%c", 'A' + i / 16, 'A' + (i / 4) % 4, 'A' + i % 4); c[i].hmask = HM_U; }
                        layout(cap, mode);
                        world_build();
                        snprintf(SW.extra, sizeof SW.extra, "family=many-commands cap=%d N=%d layout=%d", cap, N, mode);
                        for (int i = 0; i < N; i++) {
                                int n = snprintf((char *)line, sizeof line, "AT%s\n", c[i].name);
                                if (run(line, n)) return 1;
                                n = snprintf((char *)line, sizeof line, "AT%.2s\n", c[i].name);
                                if (run(line, n)) return 1;
                        }
                }
        }
        return 0;
}

int main(int argc, char **argv)
{
        sw_init(argc, argv, "bounds");
        const char *fam = sw_args(argc, argv, "--family", "args");
        if (!strcmp(fam, "args")) family_args();
        else if (!strcmp(fam, "format")) family_format();
        else if (!strcmp(fam, "ubuf")) family_ubuf();
        else family_names();
        char tag[64];
        snprintf(tag, sizeof tag, "bounds-%s-%d", fam, SW.shard);
        return sw_finish(tag);
}
