#!/usr/bin/env python3
"""muttest.py <name> <checks,comma> [--tier quick] : applies mutant <name> from tools/mutants.py to a scratch copy
of /repo, runs the repo's own test suite on it, then runs the given checks against it.  Scratch copy removed afterwards."""
import sys, os, subprocess, shutil, json, time
HERE = os.path.dirname(os.path.abspath(__file__))
sys.path.insert(0, HERE)
import mutants
name, checks = sys.argv[1], sys.argv[2].split(",")
tier = sys.argv[sys.argv.index("--tier") + 1] if "--tier" in sys.argv else "quick"
old, new = mutants.M[name]
d = "/tmp/mut_" + name
shutil.rmtree(d, ignore_errors=True)
os.makedirs(d)
subprocess.check_call(["git", "-C", "/repo", "worktree", "add", "--detach", "-f", d + "/wt"], stdout=subprocess.DEVNULL, stderr=subprocess.DEVNULL) if False else None
shutil.copytree("/repo/src", d + "/src"); shutil.copytree("/repo/tests", d + "/tests"); shutil.copytree("/repo/example", d + "/example"); shutil.copy("/repo/CMakeLists.txt", d)
p = d + "/src/cat.c"
s = open(p).read()
if s.count(old) != 1:
    print("mutant", name, ": pattern occurs", s.count(old), "times"); sys.exit(3)
open(p, "w").write(s.replace(old, new))
r = subprocess.run("cmake -G Ninja -B %s/_b -S %s >/dev/null 2>&1 && cmake --build %s/_b 2>&1 | tail -3 && timeout 120 ctest --test-dir %s/_b -j8 --timeout 20 2>&1 | tail -3" % (d, d, d, d), shell=True, capture_output=True, text=True)
suite = "100% tests passed" in r.stdout
print("mutant %-28s suite_passes=%s" % (name, suite))
if not suite:
    print(r.stdout[-600:])
res = {}
for c in checks:
    t0 = time.time()
    rr = subprocess.run(["python3", os.path.join(HERE, "..", "check.py"), c, "--tier", tier], capture_output=True, text=True, env=dict(os.environ, CAT_REPO=d))
    v = [l for l in rr.stdout.splitlines() if "shard" in l and ":" in l][:1]
    res[c] = rr.returncode
    print("   %s rc=%d %.0fs %s" % (c, rr.returncode, time.time() - t0, (v[0][:220] if v else rr.stdout.strip().splitlines()[-1][:220] if rr.stdout.strip() else rr.stderr[-300:])))
shutil.rmtree(d, ignore_errors=True)
