#!/usr/bin/env python3
"""replay.py <replay file>: re-executes a recorded path on the real code without the explorer."""
import sys, os, shlex, subprocess
HERE = os.path.dirname(os.path.abspath(__file__))
path = sys.argv[1]
argv, ring, binname = None, "1", "mcx"
for line in open(path):
    if line.startswith("argv "):
        argv = shlex.split(line[5:])
    elif line.startswith("ring "):
        ring = line.split()[1]
    elif line.startswith("bin "):
        binname = line.split()[1]
bdir = os.path.join(HERE, "build", "replay")
exe = os.path.join(bdir, "%s_r%s" % (binname, ring))
r = subprocess.run(["make", "-s", "-C", HERE, "B=" + bdir, exe])
if r.returncode:
    sys.exit(2)
tmp = None
for i, a in enumerate(argv):
    if i and argv[i - 1] == "--feed-hex" and len(a) > 100000:      # one argument string is limited to 128 KiB
        tmp = os.path.join(bdir, "feed_%d.hex" % os.getpid())
        open(tmp, "w").write(a)
        argv[i] = "@" + tmp
rc = subprocess.run([exe] + argv + ["--replay", path], cwd=HERE).returncode
if tmp:
    os.unlink(tmp)
sys.exit(rc)
