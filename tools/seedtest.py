#!/usr/bin/env python3
"""seedtest.py <ID> [checks,comma] [--tier quick] [--keep]
Validates a sub-agent's seeded change in /tmp/wt_<ID>/_seed (or /verif/seeded/<ID>):
  1. the patch applies to a scratch copy of /repo's HEAD, builds warning-free and the 30 tests pass;
  2. the demo exits 0 without the patch and non-zero with it;
  3. runs the given checks (default: the property's own) against the patched copy (CAT_REPO).
With --keep, copies patch/demo/notes into /verif/seeded/<ID>/ and writes meta.json."""
import sys, os, subprocess, shutil, json, time, re
HERE = os.path.dirname(os.path.abspath(__file__))
VERIF = os.path.dirname(HERE)
sid = sys.argv[1]
prop = sid.split("_")[0]
checks = sys.argv[2].split(",") if len(sys.argv) > 2 and not sys.argv[2].startswith("--") else [prop]
tier = sys.argv[sys.argv.index("--tier") + 1] if "--tier" in sys.argv else "quick"
keep = "--keep" in sys.argv
src = "/tmp/wt_%s/_seed" % sid
if not os.path.isdir(src):
    src = os.path.join(VERIF, "seeded", sid)
d = "/tmp/seedchk_" + sid
shutil.rmtree(d, ignore_errors=True)
os.makedirs(d)
subprocess.check_call("git -C /repo archive HEAD | tar -x -C %s" % d, shell=True)
subprocess.check_call(["git", "init", "-q"], cwd=d)


def sh(cmd, cwd=d, timeout=600):
    return subprocess.run(cmd, shell=True, cwd=cwd, capture_output=True, text=True, timeout=timeout)


notes = open(os.path.join(src, "NOTES.md")).read() if os.path.exists(os.path.join(src, "NOTES.md")) else ""
m = re.search(r"gcc[^\n`]*demo\.c[^\n`]*", notes)
extra = ""
if m:
    for tok in m.group(0).split():
        tok = tok.strip("`'\".,;)")
        if re.match(r"^-D[A-Za-z_][A-Za-z0-9_]*(=\w+)?$", tok) or tok in ("-lpthread", "-pthread"):
            extra += " " + tok
shutil.copy(os.path.join(src, "demo.c"), d + "/demo.c")
cc = "gcc -I src demo.c src/cat.c -o demo%s" % extra
r0 = sh(cc + " && ./demo", timeout=120)
demo_orig = r0.returncode
ra = sh("git apply %s" % os.path.join(src, "patch.diff"))
if ra.returncode != 0:
    print("PATCH DOES NOT APPLY:", ra.stderr[:500]); sys.exit(3)
r1 = sh(cc + " && ./demo", timeout=120)
demo_mut = r1.returncode
rb = sh("cmake -G Ninja -B _b -S . >/dev/null 2>&1 && cmake --build _b 2>&1 | tail -2 && timeout 300 ctest --test-dir _b -j8 --timeout 30 2>&1 | tail -3")
suite = "100% tests passed" in rb.stdout
print("seed %s: demo(original)=%d demo(changed)=%d suite_passes=%s  [%s]" % (sid, demo_orig, demo_mut, suite, cc))
valid = demo_orig == 0 and demo_mut != 0 and suite
results = {}
fast = "--fast" in sys.argv      # regression mode: first only the shard that reported the seed last time, the whole check if that is silent
old_meta = {}
if os.path.exists(os.path.join(VERIF, "seeded", sid, "meta.json")):
    old_meta = json.load(open(os.path.join(VERIF, "seeded", sid, "meta.json")))
for c in checks:
    t0 = time.time()
    rr = None
    m = re.match(r"shard ([^:]+):", old_meta.get("checks", {}).get(c, {}).get("first", ""))
    if fast and m:
        rr = subprocess.run(["python3", os.path.join(VERIF, "check.py"), c, "--tier", tier, "--only", m.group(1)], capture_output=True, text=True, env=dict(os.environ, CAT_REPO=d))
        if rr.returncode != 1:
            rr = None
    if rr is None:
        rr = subprocess.run(["python3", os.path.join(VERIF, "check.py"), c, "--tier", tier], capture_output=True, text=True, env=dict(os.environ, CAT_REPO=d))
    first = [l for l in rr.stdout.splitlines() if l.strip().startswith("shard")][:1]
    results[c] = {"rc": rr.returncode, "first": first[0].strip()[:300] if first else rr.stdout.strip().splitlines()[-1][:300] if rr.stdout.strip() else ""}
    print("   %s rc=%d %.0fs %s" % (c, rr.returncode, time.time() - t0, results[c]["first"]))
if keep and valid:
    out = os.path.join(VERIF, "seeded", sid)
    os.makedirs(out, exist_ok=True)
    for f in ("patch.diff", "demo.c", "NOTES.md"):
        if os.path.abspath(src) != os.path.abspath(out) and os.path.exists(os.path.join(src, f)):
            shutil.copy(os.path.join(src, f), out)
    meta = {"property": prop, "seed": sid, "demo_compile": cc, "verified": {"patch_applies": True, "suite_passes_with_change": suite, "demo_exit_original": demo_orig, "demo_exit_changed": demo_mut},
            "ran": "tools/seedtest.py %s %s --tier %s (patch applied to a scratch export of /repo HEAD, checks pointed at it with CAT_REPO)" % (sid, ",".join(checks), tier),
            "checks": results}
    old = {}
    mp = os.path.join(out, "meta.json")
    if os.path.exists(mp):
        old = json.load(open(mp))
        old_checks = old.get("checks", {})
        old_checks.update(results)
        meta["checks"] = old_checks
        for k in ("needs_to_manifest", "summary", "source", "domain_note", "not_reported_note"):
            if k in old:
                meta[k] = old[k]
    json.dump(meta, open(mp, "w"), indent=1)
shutil.rmtree(d, ignore_errors=True)
import hashlib, glob
for bd in glob.glob(os.path.join(VERIF, "build", "*_scratch_" + hashlib.sha1(d.encode()).hexdigest()[:8])):
    shutil.rmtree(bd, ignore_errors=True)          # binaries built against the scratch copy
sys.exit(0 if valid else 4)
