/* C17: real threads under a preemption-bounded scheduler.
 *
 * One service thread S and 1..3 producer threads run the real library with a
 * real mutex interface supplied by this scheduler.  Exactly one thread is
 * runnable at a time (semaphore hand-off).  Scheduling points: lock() before
 * acquisition, unlock() after release, the first io/handler callback inside
 * every cat_service call, and the boundaries between API calls.  All schedules
 * with at most B preemptions are enumerated (stateless, prefix replay).
 *
 * Race oracle: the mutable part of the parser object, the working buffers and
 * the variable storage live in a page that is PROT_NONE whenever the running
 * thread does not own the lock.  An access without the lock traps; writes are
 * violations outright, reads are violations if some other thread changes those
 * bytes inside a locked section anywhere in the exploration.
 */
#define _GNU_SOURCE
#include "cat.h"
#include <pthread.h>
#include <semaphore.h>
#include <signal.h>
#include <stdio.h>
#include <stdlib.h>
#include <string.h>
#include <stddef.h>
#include <sys/mman.h>
#include <sys/stat.h>
#include <ucontext.h>
#include <unistd.h>
#include <time.h>
#include <stdarg.h>

#define MAXT 5
#define MAXP 4096
#define PAGE 4096
#define REGION PAGE                /* protected region: one page */
#define USED 768                   /* bytes of the region actually occupied (object, buffer, variables) */

_Static_assert(offsetof(struct cat_object, index) == 3 * sizeof(void *), "first mutable field of cat_object moved: adjust the page split");

/* ---- configuration ---- */
static int n_prod = 2, bound = 2, ops_per_prod = 2, shard = 0, nshards = 1, horizon = 3000, g_opset;
static int variant;       /* 1: the hold is entered by the read handler of producer 1's (registered) event command, requested as AT+U1? */
static const char *replay_dir = "replays";
static const char *prop = "C17";
static double deadline = 0, t_start;

/* ---- memory layout ---- */
static uint8_t *base;              /* page 1 | page 2 | page 3 */
static uint8_t *prot;              /* start of the protected region (page 2) */
static uint8_t *alias;             /* always-accessible second mapping of the protected region, for the harness' own reads */
static struct cat_object *obj;
static uint8_t *wbuf;              /* working buffer (shared layout), inside the protected region */
static uint32_t *vars;             /* event variables, inside the protected region */
static int prot_state = -1;

static void set_prot(int rw)
{
        if (prot_state == rw) return;
        mprotect(prot, REGION, rw ? (PROT_READ | PROT_WRITE) : PROT_NONE);
        prot_state = rw;
}

/* ---- scheduler state ---- */
struct thr { pthread_t pt; sem_t sem; int finished, want_lock, waiting, site, opidx; unsigned epoch; };
static struct thr T[MAXT];
static int nthreads, cur = -1, lock_owner = -1;
static unsigned progress_epoch;
static sem_t done_sem;
static int deadlock, aborted;

struct point { uint8_t nopts, chosen, cur_enabled; int pre_before; };
static struct point pts[MAXP];
static int npts;
static uint8_t prefix[MAXP];
static int plen;

/* ---- per-run observations ---- */
static int accepted[MAXT], full[MAXT], delivered[MAXT];
static char out[4096]; static int out_n;
static const char *in_p; static int in_pos, in_n;
static int write_attempts, write_refused_now;
static int inside_point_done;      /* one scheduling point inside each cat_service call */
static int hold_released_ok;

/* ---- violations ---- */
static int violated; static char vmsg[512];
static void violation(const char *fmt, ...)
{
        if (violated) return;
        violated = 1;
        va_list ap; va_start(ap, fmt); vsnprintf(vmsg, sizeof vmsg, fmt, ap); va_end(ap);
}
static void fatal(const char *fmt, ...)
{
        va_list ap; va_start(ap, fmt);
        fprintf(stderr, "C17 HARNESS ERROR: "); vfprintf(stderr, fmt, ap); fprintf(stderr, "\n");
        va_end(ap);
        _exit(2);
}

/* ---- race tables (whole exploration) ---- */
static uint8_t changed_locked[REGION];     /* bitmask of threads that changed the byte inside a locked section */
static uint8_t read_unlocked[REGION];      /* bitmask of threads that read the byte without the lock */
static int have_read_witness; static uint8_t read_witness_prefix[MAXP]; static int read_witness_len; static long read_witness_off; static int read_witness_thr;
static uint8_t lock_snapshot[REGION];
static uint64_t n_traps;

static void on_segv(int sig, siginfo_t *si, void *ctx)
{
        uint8_t *a = (uint8_t *)si->si_addr;
        if (a < prot || a >= prot + REGION) {
                signal(sig, SIG_DFL);
                return;
        }
        ucontext_t *uc = ctx;
        int is_write = (uc->uc_mcontext.gregs[REG_ERR] & 2) != 0;
        long off = a - prot;
        n_traps++;
        if (is_write) {
                if (!violated) {
                        violated = 1;
                        snprintf(vmsg, sizeof vmsg, "C17: thread %d wrote parser state (offset %ld of the protected region; object starts at %ld) without holding the lock", cur, off,
                                 (long)((uint8_t *)obj - prot));
                }
        } else {
                for (long k = off; k < off + 8 && k < REGION; k++) read_unlocked[k] |= (uint8_t)(1u << cur);
                if (!have_read_witness) {
                        have_read_witness = 1; read_witness_off = off; read_witness_thr = cur;
                        read_witness_len = npts;
                        for (int i = 0; i < npts; i++) read_witness_prefix[i] = pts[i].chosen;
                }
        }
        /* let the access proceed: after a read only reads are allowed (a later write traps again);
         * protection is re-evaluated at the next scheduling point */
        mprotect(prot, REGION, is_write ? (PROT_READ | PROT_WRITE) : PROT_READ);
        prot_state = is_write ? 1 : 2;
}

/* ---- visited scheduling states (pruning of equivalent schedules) ---- */
static uint64_t *vis; static uint64_t viscap, visn;
static int prune_from, use_prune = 1;
static uint64_t n_pruned;
static int preemptions;

static int vis_insert(uint64_t h)
{
        if (!vis) { viscap = 1 << 16; vis = calloc(viscap, 8); }
        if ((visn + 1) * 10 > viscap * 7) {
                uint64_t *old = vis, oc = viscap;
                viscap <<= 1; vis = calloc(viscap, 8); visn = 0;
                for (uint64_t i = 0; i < oc; i++) if (old[i]) vis_insert(old[i]);
                free(old);
        }
        if (!h) h = 1;
        uint64_t i = (h * 0x9e3779b97f4a7c15ULL) & (viscap - 1);
        while (vis[i]) { if (vis[i] == h) return 0; i = (i + 1) & (viscap - 1); }
        vis[i] = h; visn++;
        return 1;
}

static int parts_seen[8];       /* handler invocations per producer (multi-part events) */

static uint64_t state_key(void)
{
        uint64_t h = 1469598103934665603ULL;
#define MIX(x) do { h ^= (uint64_t)(x); h *= 1099511628211ULL; h ^= h >> 29; } while (0)
        const uint64_t *w = (const uint64_t *)alias;
        for (int i = 0; i < USED / 8; i++) MIX(w[i]);
        for (int t = 0; t < nthreads; t++) { MIX(T[t].finished * 64 + T[t].want_lock * 32 + T[t].waiting * 16 + T[t].site); MIX(T[t].opidx); MIX(T[t].waiting && T[t].epoch == progress_epoch); }
        MIX(cur + 1); MIX(lock_owner + 1); MIX(preemptions); MIX(in_pos); MIX(out_n); MIX(write_attempts % 3); MIX(inside_point_done); MIX(hold_released_ok);
        for (int i = 0; i < out_n; i++) MIX((uint8_t)out[i]);
        for (int p = 0; p < MAXT; p++) MIX(accepted[p] * 64 + full[p] * 8 + delivered[p] + 1024 * parts_seen[p]);
        return h;
}

/* ---- scheduling ---- */
static int enabled(int t)
{
        if (T[t].finished) return 0;
        if (T[t].want_lock && lock_owner != -1) return 0;           /* also covers re-locking by the owner: self-deadlock */
        if (T[t].waiting && T[t].epoch == progress_epoch) {
                /* the service thread spins without effect: it waits for another thread to do something */
                int others = 0;
                for (int k = 0; k < nthreads; k++) if (k != t && !T[k].finished) others = 1;
                if (others) return 0;
        }
        return 1;
}

static void sched_point(void)
{
        int self = cur;
        int list[MAXT], n = 0;
        if (self >= 0 && enabled(self)) list[n++] = self;
        for (int t = 0; t < nthreads; t++) if (t != self && enabled(t)) list[n++] = t;
        if (n == 0) {
                int unfinished = 0;
                for (int t = 0; t < nthreads; t++) if (!T[t].finished) unfinished = 1;
                if (unfinished) { deadlock = 1; aborted = 1; violation("C17: deadlock: no thread can run (lock owner %d)", lock_owner); }
                sem_post(&done_sem);
                if (self >= 0 && !T[self].finished) { for (;;) pause(); }
                return;
        }
        int choice = 0;
        if (npts < plen) {
                choice = prefix[npts];
                if (choice >= n) fatal("replayed choice %d out of range %d at point %d: schedule not reproducible", choice, n, npts);
        }
        if (npts >= MAXP) fatal("too many scheduling points");
        if (use_prune && npts >= plen && prune_from < 0 && n > 1) {
                if (!vis_insert(state_key())) { prune_from = npts; n_pruned++; }
        }
        int cur_en = (self >= 0 && n > 0 && list[0] == self);
        pts[npts].nopts = (uint8_t)n; pts[npts].chosen = (uint8_t)choice; pts[npts].cur_enabled = (uint8_t)cur_en; pts[npts].pre_before = preemptions;
        npts++;
        int next = list[choice];
        if (next != self && cur_en) preemptions++;
        cur = next;
        set_prot(lock_owner == next);
        if (next != self) {
                sem_post(&T[next].sem);
                if (self >= 0 && !T[self].finished) sem_wait(&T[self].sem);
        }
}

/* ---- mutex interface handed to the library ---- */
static int mx_lock(void)
{
        int self = cur;
        if (lock_owner == self) { violation("C17: thread %d takes the lock it already holds (self-deadlock with a non-recursive mutex)", self); return 1; }
        T[self].want_lock = 1;
        T[self].site = 1;
        sched_point();
        T[self].want_lock = 0;
        if (lock_owner != -1) fatal("scheduler let thread %d through a held lock", self);
        lock_owner = self;
        set_prot(1);
        memcpy(lock_snapshot, alias, USED);
        return 0;
}

static int mx_unlock(void)
{
        int self = cur;
        if (lock_owner != self) { violation("C17: thread %d called unlock() while the lock is owned by %d", self, lock_owner); return 0; }
        /* bytes changed inside this critical section */
        for (int k = 0; k < USED; k++) if (alias[k] != lock_snapshot[k]) changed_locked[k] |= (uint8_t)(1u << self);
        lock_owner = -1;
        set_prot(0);
        return 0;
}

static struct cat_mutex_interface mx = {.lock = mx_lock, .unlock = mx_unlock};

/* ---- library callbacks (service thread context) ---- */
static void inside_point(int site)
{
        if (lock_owner != cur) violation("C17: library callback invoked by thread %d without the lock (owner %d)", cur, lock_owner);
        if (inside_point_done) return;
        inside_point_done = 1;
        T[cur].site = 10 + site;
        sched_point();
}

static int io_read(char *ch)
{
        inside_point(0);
        if (in_pos >= in_n) return 0;
        *ch = in_p[in_pos++];
        return 1;
}

static int io_write(char ch)
{
        inside_point(1);
        if ((++write_attempts % 3) == 0) { write_refused_now = 1; return 0; }        /* output back-pressure */
        if (out_n < (int)sizeof out) out[out_n++] = ch;
        return 1;
}

static struct cat_command cmds[8];
static struct cat_variable evars[MAXT];

static cat_return_state ev_read(const struct cat_command *cmd, uint8_t *data, size_t *data_size, const size_t max)
{
        (void)data; (void)data_size; (void)max;
        inside_point(2);
        /* variant 1: the command machine hands out the command half of the working buffer, the event machine the other one */
        if (variant == 1 && data == wbuf) return CAT_RETURN_STATE_HOLD;
        int p = (int)(cmd - cmds) - 1;
        /* the second producer's READ events have two parts (DATA_NEXT, then DATA_OK): an event counts as delivered with its last part */
        if (p == 2 && !(parts_seen[p]++ & 1)) return CAT_RETURN_STATE_DATA_NEXT;
        delivered[p]++;
        /* the first producer's events fail: an event that ends through the error path must not disturb the ones queued behind it */
        return (p == 1) ? CAT_RETURN_STATE_ERROR : CAT_RETURN_STATE_DATA_OK;
}
static cat_return_state ev_test(const struct cat_command *cmd, uint8_t *data, size_t *data_size, const size_t max)
{
        (void)data; (void)data_size; (void)max;
        inside_point(5);
        delivered[(cmd - cmds) - 1]++;
        /* the first producer's TEST events end with a release request (a no-op unless a command is held) */
        return ((cmd - cmds) - 1 == 1) ? CAT_RETURN_STATE_HOLD_EXIT_OK : CAT_RETURN_STATE_DATA_OK;
}
static cat_return_state hold_run(const struct cat_command *cmd) { (void)cmd; inside_point(3); return CAT_RETURN_STATE_HOLD; }
/* variant 3: the plain command answers with the command list (several units of the command machine while events are in flight) */
static cat_return_state plain_run(const struct cat_command *cmd) { (void)cmd; inside_point(4); return variant == 3 ? CAT_RETURN_STATE_PRINT_CMD_LIST_OK : CAT_RETURN_STATE_OK; }

static struct cat_io_interface io = {.write = io_write, .read = io_read};
static struct cat_command_group grp; static struct cat_command_group *grps[1];
static struct cat_descriptor desc;

/* ---- thread bodies ---- */
static int prod_ops[MAXT][4];     /* 0 trigger_read, 1 is_full, 2 is_busy, 3 is_hold, 4 hold_exit, 5 trigger_test, 6 trigger_event(READ) */

static void *service_body(void *arg)
{
        (void)arg;
        sem_wait(&T[0].sem);
        static uint8_t before[REGION];
        for (int it = 0;; it++) {
                if (it >= horizon) { violation("C17: service thread made %d calls without reaching quiescence (livelock)", it); break; }
                memcpy(before, alias, USED);
                int o0 = out_n, i0 = in_pos;
                int d0 = 0; for (int k = 0; k < MAXT; k++) d0 += delivered[k];
                inside_point_done = 0; write_refused_now = 0;
                cat_status s = cat_service(obj);
                int d1 = 0; for (int k = 0; k < MAXT; k++) d1 += delivered[k];
                int changed = memcmp(before, alias, USED) != 0 || out_n != o0 || in_pos != i0 || d1 != d0 || write_refused_now;
                if (s < 0) { violation("C17: cat_service returned error %d", s); break; }
                if (!changed) {
                        int others = 0;
                        for (int k = 1; k < nthreads; k++) if (!T[k].finished) others = 1;
                        if (!others) break;                /* nothing left to do and nobody left to provide stimulus */
                        T[0].waiting = 1; T[0].epoch = progress_epoch;
                        T[0].site = 3;
                        sched_point();            /* blocks until another thread completes an API call */
                }
                T[0].waiting = 0;
                if (aborted) break;
        }
        T[0].finished = 1;
        T[0].site = 4;
        sched_point();
        return NULL;
}

static void *producer_body(void *arg)
{
        int id = (int)(long)arg;
        sem_wait(&T[id].sem);
        for (int k = 0; k < ops_per_prod && !aborted; k++) {
                cat_status s;
                switch (prod_ops[id][k]) {
                case 0: case 5: case 6:
                        s = prod_ops[id][k] == 0 ? cat_trigger_unsolicited_read(obj, &cmds[1 + id])
                          : prod_ops[id][k] == 5 ? cat_trigger_unsolicited_test(obj, &cmds[1 + id])
                                                 : cat_trigger_unsolicited_event(obj, &cmds[1 + id], CAT_CMD_TYPE_READ);
                        if (s == CAT_STATUS_OK) accepted[id]++;
                        else if (s == CAT_STATUS_ERROR_BUFFER_FULL) full[id]++;
                        else violation("C17: trigger returned %d", s);
                        break;
                case 1: s = cat_is_unsolicited_buffer_full(obj); if (s != CAT_STATUS_OK && s != CAT_STATUS_ERROR_BUFFER_FULL) violation("C17: is_buffer_full returned %d", s); break;
                case 2: s = cat_is_busy(obj); if (s != CAT_STATUS_OK && s != CAT_STATUS_BUSY) violation("C17: is_busy returned %d", s); break;
                case 3: s = cat_is_hold(obj); if (s != CAT_STATUS_OK && s != CAT_STATUS_HOLD) violation("C17: is_hold returned %d", s); break;
                default:
                        s = cat_hold_exit(obj, CAT_STATUS_OK);
                        if (s == CAT_STATUS_OK) hold_released_ok++;
                        else if (s != CAT_STATUS_ERROR_NOT_HOLD) violation("C17: hold_exit returned %d", s);
                        break;
                }
                progress_epoch++;
                T[id].opidx = k + 1;
        }
        T[id].finished = 1;
        progress_epoch++;
        T[id].site = 6;
        sched_point();
        return NULL;
}

/* ---- one execution ---- */
static const char *INPUT = "ATH\nATP\n", *INPUT1 = "AT+U1?\nATP\n", *INPUT2 = "ATX\nATP\n";   /* variant 2: no hold; the first line is answered ERROR */

static void run_once(void)
{
        set_prot(1);
        memset(alias, 0, REGION);
        memset(accepted, 0, sizeof accepted); memset(full, 0, sizeof full); memset(delivered, 0, sizeof delivered); memset(parts_seen, 0, sizeof parts_seen);
        out_n = 0; in_p = variant == 1 ? INPUT1 : variant == 2 ? INPUT2 : variant == 3 ? "ATP\n" : INPUT; in_pos = 0; in_n = (int)strlen(in_p); write_attempts = 0; hold_released_ok = 0;
        npts = 0; preemptions = 0; prune_from = -1; cur = -1; lock_owner = -1; progress_epoch = 0; deadlock = 0; aborted = 0;
        nthreads = 1 + n_prod;
        /* descriptor: +H holds, +P answers, one event command per producer */
        memset(cmds, 0, sizeof cmds);
        cmds[0] = (struct cat_command){.name = "H", .run = hold_run};
        cmds[1] = (struct cat_command){.name = "P", .run = plain_run};
        for (int p = 1; p <= n_prod; p++) {
                static const char *nm[] = {"", "+u1", "+u2", "+u3", "+u4"};
                evars[p] = (struct cat_variable){.type = CAT_VAR_UINT_DEC, .data = &vars[p], .data_size = 4, .access = CAT_VAR_ACCESS_READ_ONLY};
                vars[p] = (uint32_t)(10 + p);
                cmds[1 + p] = (struct cat_command){.name = nm[p], .read = ev_read, .test = ev_test, .var = &evars[p], .var_num = 1};
        }
        grp = (struct cat_command_group){.cmd = cmds, .cmd_num = variant == 1 ? 3 : 2};       /* event commands need not be registered */
        grps[0] = &grp;
        desc = (struct cat_descriptor){.cmd_group = grps, .cmd_group_num = 1, .buf = wbuf, .buf_size = 96};
        cat_init(obj, &desc, &io, &mx);
        set_prot(0);
        sem_init(&done_sem, 0, 0);
        for (int t = 0; t < nthreads; t++) {
                sem_init(&T[t].sem, 0, 0);
                T[t].finished = T[t].want_lock = T[t].waiting = 0; T[t].epoch = 0; T[t].site = 0; T[t].opidx = 0;
        }
        if (pthread_create(&T[0].pt, NULL, service_body, NULL) != 0) fatal("pthread_create failed");
        for (int t = 1; t < nthreads; t++)
                if (pthread_create(&T[t].pt, NULL, producer_body, (void *)(long)t) != 0) fatal("pthread_create failed");
        sched_point();                                  /* choose who starts */
        /* wait until every thread has finished (or the run was aborted) */
        for (;;) {
                int allfin = 1;
                for (int t = 0; t < nthreads; t++) if (!T[t].finished) allfin = 0;
                if (allfin || aborted) break;
                sem_wait(&done_sem);
        }
        if (aborted && !violated) fatal("run aborted without a violation");
        if (!aborted) for (int t = 0; t < nthreads; t++) pthread_join(T[t].pt, NULL);
        set_prot(1);
        /* the output is a sequence of whole units, each one a result code or the text of one of the producers' events */
        if (!violated) {
                int i = 0;
                while (i < out_n && !violated) {
                        int j = i + 1;
                        while (j < out_n && out[j] != '\n') j++;
                        int ok = out[i] == '\n' && j < out_n;
                        if (ok) {
                                char pay[64]; int n = j - i - 1;
                                if (n >= (int)sizeof pay) n = (int)sizeof pay - 1;
                                memcpy(pay, out + i + 1, (size_t)n); pay[n] = 0;
                                ok = !strcmp(pay, "OK") || !strcmp(pay, "ERROR") || !strcmp(pay, "ATH") || !strcmp(pay, "ATP");
                                for (int p = 1; p <= n_prod && !ok; p++) {
                                        char a[32], b[32];
                                        snprintf(a, sizeof a, "+u%d=%d", p, 10 + p);
                                        snprintf(b, sizeof b, "+u%d=<UINT32[RO]>", p);
                                        ok = !strcmp(pay, a) || !strcmp(pay, b);
                                }
                        }
                        if (!ok) {
                                char esc[200]; int k = 0;
                                for (int q = 0; q < out_n && k < 190; q++) { if (out[q] == '\n') { esc[k++] = '\\'; esc[k++] = 'n'; } else esc[k++] = (out[q] >= 32 && out[q] < 127) ? out[q] : '?'; }
                                esc[k] = 0;
                                violation("C17: the output is not a sequence of whole units (offset %d): %s", i, esc);
                        }
                        i = j + 1;
                }
        }
        /* exactly-once delivery */
        if (!violated)
                for (int p = 1; p <= n_prod; p++)
                        if (delivered[p] != accepted[p])
                                violation("C17: producer %d had %d triggers accepted (%d refused as full) but its event was delivered %d times", p, accepted[p], full[p], delivered[p]);
}

/* the last thread to finish wakes main */
/* (sched_point posts done_sem when nobody is enabled) */

/* ---- exploration ---- */
static uint64_t n_runs, n_points;
static uint64_t outcome_hashes[4096]; static int n_outcomes;

static void note_outcome(void)
{
        uint64_t h = 1469598103934665603ULL;
        for (int i = 0; i < out_n; i++) h = (h ^ (uint8_t)out[i]) * 1099511628211ULL;
        for (int p = 0; p < MAXT; p++) h = (h ^ (uint64_t)(accepted[p] * 16 + full[p] * 4 + delivered[p])) * 1099511628211ULL;
        h = (h ^ (uint64_t)hold_released_ok) * 1099511628211ULL;
        for (int i = 0; i < n_outcomes; i++) if (outcome_hashes[i] == h) return;
        if (n_outcomes < 4096) outcome_hashes[n_outcomes++] = h;
}

static char replay_path[512];
static void write_replay(const uint8_t *pf, int n, const char *msg)
{
        mkdir(replay_dir, 0777);
        uint64_t h = 1469598103934665603ULL;
        for (int i = 0; i < n; i++) h = (h ^ pf[i]) * 1099511628211ULL;
        snprintf(replay_path, sizeof replay_path, "%s/%s_threads_%016llx.replay", replay_dir, prop, (unsigned long long)h);
        FILE *f = fopen(replay_path, "w");
        if (!f) fatal("cannot write replay");
        fprintf(f, "# C17 schedule replay\nbin threads\nargv '--producers' '%d' '--ops' '%d' '--opset' '%d' '--variant' '%d'\nring %d\nprop %s\nmsg %s\nschedule %d", n_prod, ops_per_prod, g_opset, variant, (int)CAT_UNSOLICITED_CMD_BUFFER_SIZE, prop, msg, n);
        for (int i = 0; i < n; i++) fprintf(f, " %d", pf[i]);
        fprintf(f, "\n");
        fclose(f);
}

static int stop;
static int top_index;

static void explore(int len)
{
        if (stop) return;
        plen = len;
        run_once();
        n_runs++; n_points += (uint64_t)npts;
        if (violated) {
                /* replay the same schedule once more before reporting */
                uint8_t sched[MAXP]; int n = npts;
                for (int i = 0; i < npts; i++) sched[i] = pts[i].chosen;
                char msg[512]; snprintf(msg, sizeof msg, "%s", vmsg);
                if (!deadlock) {
                        violated = 0;
                        memcpy(prefix, sched, (size_t)n); plen = n;
                        run_once();
                        if (!violated) fatal("violation '%s' did not reproduce when its schedule was replayed", msg);
                }
                write_replay(sched, n, msg);
                snprintf(vmsg, sizeof vmsg, "%s", msg);
                violated = 1; stop = 1;
                return;
        }
        note_outcome();
        /* copy this run's points: the recursion overwrites the globals */
        int n = (prune_from >= 0) ? prune_from : npts;
        struct point *my = malloc(sizeof(struct point) * (size_t)(n ? n : 1));
        memcpy(my, pts, sizeof(struct point) * (size_t)n);
        uint8_t *mine = malloc((size_t)(n ? n : 1));
        for (int i = 0; i < n; i++) mine[i] = my[i].chosen;
        for (int i = len; i < n && !stop; i++) {
                int cost = my[i].pre_before;
                if (my[i].cur_enabled) cost++;
                if (cost > bound) continue;
                for (int alt = 1; alt < my[i].nopts && !stop; alt++) {
                        if (len == 0) {
                                /* top level: distribute the subtrees over the shards */
                                int mineidx = top_index++;
                                if (mineidx % nshards != shard) continue;
                        }
                        memcpy(prefix, mine, (size_t)i);
                        prefix[i] = (uint8_t)alt;
                        explore(i + 1);
                        if (deadline > 0 && (n_runs & 63) == 0) {
                                struct timespec ts; clock_gettime(CLOCK_MONOTONIC, &ts);
                                if (ts.tv_sec + ts.tv_nsec * 1e-9 - t_start > deadline) stop = 2;
                        }
                }
        }
        free(my); free(mine);
}

int main(int argc, char **argv)
{
        int opset = 0;
        const char *replay = NULL;
        for (int i = 1; i + 1 < argc; i += 2) {
                if (!strcmp(argv[i], "--producers")) n_prod = atoi(argv[i + 1]);
                else if (!strcmp(argv[i], "--bound")) bound = atoi(argv[i + 1]);
                else if (!strcmp(argv[i], "--ops")) ops_per_prod = atoi(argv[i + 1]);
                else if (!strcmp(argv[i], "--opset")) opset = atoi(argv[i + 1]);
                else if (!strcmp(argv[i], "--variant")) variant = atoi(argv[i + 1]);
                else if (!strcmp(argv[i], "--shard")) shard = atoi(argv[i + 1]);
                else if (!strcmp(argv[i], "--nshards")) nshards = atoi(argv[i + 1]);
                else if (!strcmp(argv[i], "--deadline")) deadline = atof(argv[i + 1]);
                else if (!strcmp(argv[i], "--replay-dir")) replay_dir = argv[i + 1];
                else if (!strcmp(argv[i], "--prop")) prop = argv[i + 1];
                else if (!strcmp(argv[i], "--replay")) replay = argv[i + 1];
                else if (!strcmp(argv[i], "--tier")) {}
                else if (!strcmp(argv[i], "--prune")) use_prune = atoi(argv[i + 1]);
                else fatal("unknown option %s", argv[i]);
        }
        g_opset = opset;
        if (n_prod < 1 || n_prod > 3 || ops_per_prod < 1 || ops_per_prod > 4) fatal("bad configuration");
        /* operation menus: opset selects which mix the producers run */
        static const int SETS[4][3][4] = {
                {{0, 4, 5, 1}, {6, 1, 0, 2}, {5, 3, 4, 0}},      /* all three trigger entry points, release, queries */
                {{4, 5, 2, 0}, {0, 6, 1, 3}, {2, 0, 5, 4}},
                {{0, 5, 6, 0}, {5, 0, 0, 6}, {6, 6, 5, 5}},      /* triggers only: queue pressure */
                {{3, 4, 1, 0}, {2, 5, 4, 1}, {1, 2, 3, 4}}};
        for (int p = 1; p <= 3; p++) for (int k = 0; k < 4; k++) prod_ops[p][k] = SETS[opset & 3][p - 1][k];
        struct timespec ts; clock_gettime(CLOCK_MONOTONIC, &ts);
        t_start = ts.tv_sec + ts.tv_nsec * 1e-9;
        int fd = memfd_create("c17", 0);
        if (fd < 0 || ftruncate(fd, 3 * PAGE) != 0) fatal("memfd");
        base = mmap(NULL, 3 * PAGE, PROT_READ | PROT_WRITE, MAP_SHARED, fd, 0);
        uint8_t *base2 = mmap(NULL, 3 * PAGE, PROT_READ | PROT_WRITE, MAP_SHARED, fd, 0);
        if (base == MAP_FAILED || base2 == MAP_FAILED) fatal("mmap");
        prot = base + PAGE;
        alias = base2 + PAGE;
        obj = (struct cat_object *)(prot - offsetof(struct cat_object, index));
        if (sizeof(struct cat_object) > PAGE) fatal("object larger than a page");
        wbuf = prot + 448;                        /* working buffer and variables live in the same protected page */
        vars = (uint32_t *)(prot + 448 + 128);
        if (sizeof(struct cat_object) - offsetof(struct cat_object, index) > 440) fatal("object does not fit the layout");
        struct sigaction sa; memset(&sa, 0, sizeof sa);
        sa.sa_sigaction = on_segv; sa.sa_flags = SA_SIGINFO | SA_NODEFER;
        sigaction(SIGSEGV, &sa, NULL);
        if (replay) {
                FILE *f = fopen(replay, "r");
                if (!f) fatal("cannot open %s", replay);
                char line[16384];
                plen = -1;
                while (fgets(line, sizeof line, f))
                        if (!strncmp(line, "schedule ", 9)) {
                                char *p = line + 9;
                                plen = (int)strtol(p, &p, 10);
                                for (int i = 0; i < plen; i++) prefix[i] = (uint8_t)strtol(p, &p, 10);
                        }
                fclose(f);
                if (plen < 0) fatal("no schedule in replay file");
                run_once();
                if (violated) { printf("REPLAY: violation reproduced: property=%s %s\n", prop, vmsg); printf("output so far (%d bytes): ", out_n); fwrite(out, 1, (size_t)out_n, stdout); printf("\npoints %d, accepted %d %d %d delivered %d %d %d\n", npts, accepted[1], accepted[2], accepted[3], delivered[1], delivered[2], delivered[3]); return 1; }
                printf("REPLAY: no violation along %d scheduling points; output %d bytes\n", npts, out_n);
                fwrite(out, 1, (size_t)out_n, stdout);
                return 0;
        }
        explore(0);
        /* unlocked reads of bytes that another thread changes under the lock are data races */
        if (!violated && have_read_witness) {
                for (long k = 0; k < REGION && !violated; k++) {
                        uint8_t r = read_unlocked[k], c = changed_locked[k];
                        for (int t = 0; t < MAXT && !violated; t++)
                                if ((r >> t) & 1 && (c & ~(1u << t))) {
                                        snprintf(vmsg, sizeof vmsg, "C17: thread %d reads parser state (offset %ld of the protected region; object starts at %ld) without the lock while other threads change it under the lock: data race",
                                                 t, k, (long)((uint8_t *)obj - prot));
                                        violated = 1;
                                        write_replay(read_witness_prefix, read_witness_len, vmsg);
                                }
                }
        }
        clock_gettime(CLOCK_MONOTONIC, &ts);
        double wall = ts.tv_sec + ts.tv_nsec * 1e-9 - t_start;
        printf("{\"tag\":\"threads-p%d-o%d-s%d-b%d-%d\",\"states\":%d,\"transitions\":%llu,\"runs\":%llu,\"cases\":%llu,\"distinct\":%d,\"exhaustive\":%s,\"capped\":%d,\"wall_s\":%.3f,\"violations\":%d,"
               "\"traps\":%llu,\"pruned\":%llu,\"bound\":%d,\"samples\":[\"%d threads, ring capacity %d, %llu schedules with <= %d preemptions, %d distinct outcomes; last output %d bytes\"]",
               n_prod, ops_per_prod, opset, bound, shard, n_outcomes > 0 ? n_outcomes : 1, (unsigned long long)n_points, (unsigned long long)n_runs, (unsigned long long)n_runs, n_outcomes,
               (stop || violated) ? "false" : "true", stop == 2 ? 2 : 0, wall, violated ? 1 : 0, (unsigned long long)n_traps, (unsigned long long)n_pruned, bound, 1 + n_prod, (int)CAT_UNSOLICITED_CMD_BUFFER_SIZE,
               (unsigned long long)n_runs, bound, n_outcomes, out_n);
        if (violated) {
                printf(",\"replay\":\"%s\",\"msg\":\"", replay_path);
                for (const char *p = vmsg; *p; p++) { if (*p == '"' || *p == '\\') putchar('\\'); putchar(*p); }
                printf("\"");
        }
        printf("}\n");
        return violated ? 1 : 0;
}
