# builds the explorer and sweep drivers against $(REPO)/src/cat.c from the current working tree
REPO ?= /repo
B ?= build
CC = gcc
CLANG = clang
CFLAGS = -O2 -g -Wall -Wextra -Wno-unused-parameter -Wno-format-truncation -I$(REPO)/src -Iengine
SANFLAGS = -O1 -g -fsanitize=address,undefined -fsanitize-recover=all -fno-omit-frame-pointer -DW_SANITIZE -Wno-unused-parameter -I$(REPO)/src -Iengine
ENGINE = engine/mcx.c engine/world.c engine/gen.c engine/fifo.c engine/ref.c engine/mon.c
HDRS = engine/mcx.h engine/world.h engine/wint.h
LIB = $(REPO)/src/cat.c $(REPO)/src/cat.h

all: $(B)/mcx_r1 $(B)/mcx_r2 $(B)/mcx_r3 $(B)/mcx_r8

$(B)/mcx_r%: $(ENGINE) engine/mcxmain.c $(HDRS) $(LIB)
	@mkdir -p $(B)
	$(CC) $(CFLAGS) -DCAT_UNSOLICITED_CMD_BUFFER_SIZE=$* $(ENGINE) engine/mcxmain.c $(REPO)/src/cat.c -o $@

$(B)/mcxasan_r%: $(ENGINE) engine/mcxmain.c engine/sanhooks.c $(HDRS) $(LIB)
	@mkdir -p $(B)
	$(CLANG) $(SANFLAGS) -DCAT_UNSOLICITED_CMD_BUFFER_SIZE=$* $(ENGINE) engine/mcxmain.c engine/sanhooks.c $(REPO)/src/cat.c -o $@

# sweep drivers: sweeps/<name>.c with its own main
$(B)/sw_%: sweeps/%.c $(ENGINE) $(HDRS) $(LIB) sweeps/sweep.h
	@mkdir -p $(B)
	$(CC) $(CFLAGS) -Isweeps -DCAT_UNSOLICITED_CMD_BUFFER_SIZE=1 $(ENGINE) $< $(REPO)/src/cat.c -o $@

$(B)/sw_scale: sweeps/scale.c $(LIB)
	@mkdir -p $(B)
	$(CC) $(CFLAGS) -DCAT_UNSOLICITED_CMD_BUFFER_SIZE=1 $< $(REPO)/src/cat.c -o $@

$(B)/sw_longrun_r%: sweeps/longrun.c $(ENGINE) $(HDRS) $(LIB) sweeps/sweep.h
	@mkdir -p $(B)
	$(CC) $(CFLAGS) -Isweeps -DCAT_UNSOLICITED_CMD_BUFFER_SIZE=$* $(ENGINE) $< $(REPO)/src/cat.c -o $@

$(B)/swasan_%: sweeps/%.c $(ENGINE) engine/sanhooks.c $(HDRS) $(LIB) sweeps/sweep.h
	@mkdir -p $(B)
	$(CLANG) $(SANFLAGS) -Isweeps -DCAT_UNSOLICITED_CMD_BUFFER_SIZE=1 $(ENGINE) $< engine/sanhooks.c $(REPO)/src/cat.c -o $@

$(B)/threads_r%: sched/threads.c $(LIB)
	@mkdir -p $(B)
	$(CC) -O1 -g -Wall -Wextra -I$(REPO)/src -DCAT_UNSOLICITED_CMD_BUFFER_SIZE=$* sched/threads.c $(REPO)/src/cat.c -lpthread -o $@

$(B)/tsanaux_r%: sched/tsan_aux.c $(LIB)
	@mkdir -p $(B)
	$(CLANG) -O1 -g -fsanitize=thread -I$(REPO)/src -DCAT_UNSOLICITED_CMD_BUFFER_SIZE=$* sched/tsan_aux.c $(REPO)/src/cat.c -lpthread -o $@

clean:
	rm -rf build
