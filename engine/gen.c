/* input generator: a small NFA over line shapes plus a deviation budget.
 * The explorer chooses among the offered bytes, so "all input streams of
 * the family" is a search dimension. */
#include "wint.h"
#include <string.h>

enum { SEG_A = 0, SEG_T, SEG_NAME, SEG_Q, SEG_EQ, SEG_ARGS, SEG_EQQ, SEG_CR, SEG_FREE, SEG_DONE };

static void line_start(struct genst *g)
{
        const struct gencfg *c = &W.gen;
        g->seg = (c->mode == GEN_FREE) ? SEG_FREE : SEG_A;
        g->nname = 0; g->nargs = 0; g->pos = 0;
        g->dev_left = (uint8_t)c->D;
}

void gen_init(struct genst *g)
{
        memset(g, 0, sizeof *g);
        g->lines_left = (uint8_t)W.gen.lines;
        line_start(g);
        if (w_feed || W.gen.mode == 2) g->seg = SEG_DONE;
}

static struct genst after_lf(const struct genst *g)
{
        struct genst n = *g;
        if (W.gen.lines != 0) {
                n.lines_left--;
                if (n.lines_left == 0) { memset(&n, 0, sizeof n); n.seg = SEG_DONE; return n; }
        }
        line_start(&n);
        return n;
}

static int add(struct genopt *out, int n, uint8_t b, struct genst next)
{
        for (int i = 0; i < n; i++)
                if (out[i].byte == b) return n;
        if (n >= GEN_MAXOPT) mcx_fatal("generator menu overflow");
        out[n].byte = b;
        out[n].next = next;
        return n + 1;
}

static int add_end(const struct genst *g, struct genopt *out, int n)
{
        struct genst lf = after_lf(g);
        int m = add(out, n, '\n', lf);
        if (m > n) out[m - 1].next = lf;   /* pos was reset by line_start */
        n = m;
        if (W.gen.crlf) { struct genst c = *g; c.seg = SEG_CR; n = add(out, n, '\r', c); }
        return n;
}

int gen_menu(const struct genst *g, struct genopt *out)
{
        const struct gencfg *c = &W.gen;
        int n = 0;
        struct genst t;
        int sm = c->suffix_mask ? c->suffix_mask : 15;
        if (g->seg == SEG_DONE) return 0;
        if (g->pos >= W.line_max - 3) {
                struct genst lf = after_lf(g);
                out[0].byte = '\n'; out[0].next = lf;
                return 1;
        }
        switch (g->seg) {
        case SEG_A:
                t = *g; t.seg = SEG_T;
                n = add(out, n, 'A', t);
                if (c->lower_prefix) n = add(out, n, 'a', t);
                if (c->blank) { struct genst lf = after_lf(g); int m = add(out, n, '\n', lf); if (m > n) out[m - 1].next = lf; n = m; }
                break;
        case SEG_T:
                t = *g; t.seg = SEG_NAME;
                n = add(out, n, 'T', t);
                if (c->lower_prefix) n = add(out, n, 't', t);
                break;
        case SEG_NAME:
                if (g->nname < c->max_name)
                        for (const char *p = c->name_alpha; *p; p++) { t = *g; t.nname++; n = add(out, n, (uint8_t)*p, t); }
                if (sm & 2) { t = *g; t.seg = SEG_Q; n = add(out, n, '?', t); }
                if (sm & (4 | 8)) { t = *g; t.seg = SEG_EQ; n = add(out, n, '=', t); }
                if (sm & 1) n = add_end(g, out, n);
                break;
        case SEG_Q:
        case SEG_EQQ:
                n = add_end(g, out, n);
                break;
        case SEG_EQ:
                if (sm & 8) { t = *g; t.seg = SEG_EQQ; n = add(out, n, '?', t); }
                /* fallthrough */
        case SEG_ARGS:
                if (sm & 4) {
                        if (g->nargs < c->max_args)
                                for (const char *p = c->args_alpha; *p; p++) { t = *g; t.seg = SEG_ARGS; t.nargs++; n = add(out, n, (uint8_t)*p, t); }
                        n = add_end(g, out, n);
                }
                break;
        case SEG_CR: {
                struct genst lf = after_lf(g);
                int m = add(out, n, '\n', lf);
                if (m > n) out[m - 1].next = lf;
                return m;
        }
        case SEG_FREE:
                if (g->nname < c->free_len)
                        for (int i = 0; i < c->free_n; i++) { t = *g; t.nname++; n = add(out, n, (uint8_t)c->free_alpha[i], t); }
                {
                        struct genst lf = after_lf(g);
                        int m = add(out, n, '\n', lf);
                        if (m > n) out[m - 1].next = lf;
                        n = m;
                }
                return n;
        }
        if (g->dev_left > 0) {
                for (int i = 0; i < c->dev_n; i++) {
                        uint8_t b = (uint8_t)c->dev_alpha[i];
                        if (b == '\n') {
                                struct genst lf = after_lf(g);
                                int m = add(out, n, b, lf);
                                if (m > n) out[m - 1].next = lf;
                                n = m;
                        } else {
                                t = *g; t.dev_left--;
                                n = add(out, n, b, t);
                        }
                }
        }
        return n;
}
