/* internal declarations shared by world.c, gen.c, mon.c */
#ifndef WINT_H
#define WINT_H
#include "world.h"

/* ---- generator ---- */
#define GEN_MAXOPT 96
struct genopt { uint8_t byte; struct genst next; };
void gen_init(struct genst *g);
int  gen_menu(const struct genst *g, struct genopt *out);

/* ---- expected-output fifo (one per producer) ---- */
struct fifo {
        uint16_t len;          /* bytes used in data */
        uint16_t pos;          /* position inside the head unit */
        uint8_t open;          /* 0 closed, 1 tentatively open, 2 committed */
        uint8_t sub;           /* 1: CR of a flexible newline consumed */
        uint8_t alt;           /* for result units: bit0 "OK" alive, bit1 "ERROR" alive */
        uint8_t pad;
        uint8_t data[W_FIFO];  /* records: kind(1) len(2) bytes */
};

/* reference phases (command machine and event machine share them) */
enum { R_NONE = 0, R_WVAR, R_RVAR, R_HANDLER, R_FINAL, R_HOLD, R_HOLD_REL, R_TVAR };

struct refm {
        uint8_t phase;
        uint8_t kind;          /* expected handler kind in R_HANDLER */
        int32_t cmd;
        uint8_t type;          /* cat_cmd_type */
        uint8_t var_idx;
        uint8_t crlf;
        uint32_t inv;          /* handler invocations so far for this line/event */
        uint32_t nonterm_left;
        uint8_t args_num;
        uint8_t dontcare_var;  /* 1+index of a buffer variable whose content is unspecified after a failed parse */
        uint8_t cb_pending;    /* write vars: 0 need parse, 1 waiting for callback, 2 callback done; read vars: 1 waiting */
        uint8_t term;          /* terminator of the last parsed argument: 0 end, 1 comma */
        uint8_t wsize;         /* write_size the variable write callback must be told */
        uint32_t args_off, args_len, arg_pos, line_n;
        uint16_t text_len;
        uint8_t text[W_TEXT];
};

struct qent { uint8_t ev; uint8_t complete; };

struct mon {
        /* input lexer */
        uint32_t line_len;
        uint8_t line_nonblank;
        uint8_t doomed;        /* reason code: every completion of the current line is answered ERROR */
        uint8_t doom_crlf, padd[3];
        /* command reference + fifo */
        struct refm c;
        struct fifo fc;
        /* event specification */
        struct refm e;
        struct fifo fe;
        struct qent q[W_QMAX];
        uint8_t qn;            /* entries in q */
        uint8_t cur_valid;     /* e describes q[cur] */
        uint8_t cur;
        uint8_t pad1;
        uint32_t sset;         /* possible (k, active) pairs: bit 2*k+active */
        /* hold */
        uint8_t rel_mask;      /* accepted release statuses: bit0 OK bit1 ERROR */
        uint8_t result_started;
        /* busy */
        uint8_t pad2[2];
};

struct wstate {
        struct genst gen;
        struct mon M;
        uint8_t trig_left, flag_left, last_svc_ok, reinit_left;
};

struct wint {
        struct cat_object *obj;
        struct wstate *S;
        uint8_t *line;
        struct cat_command *cmds;
        struct cat_command_group *groups;
        struct cat_command_group **grp_ptrs;
        struct cat_descriptor *desc;
        struct cat_variable *vars;
        uint8_t *buf, *ubuf;
        uint8_t **vardata, **shadow;
        int *varoff;
        int nvars, nreg, n_ro;        /* n_ro: number of read-only variables (the per-call byte compare is skipped when there are none) */
        int cap, ucap;
        /* transient (not state) */
        int depth;
        int last_ret;
        uint8_t raw[512]; int raw_n; int out_mark;
        uint64_t api_hash, unlock_hash;
        int api_hash_valid, unlock_hash_valid;
        uint8_t out[1 << 16]; int out_n;
};
extern struct wint I;
extern const char *w_prop;

uint8_t *w_alloc(size_t n, const char *name);
void VIOL(unsigned mask, const char *fmt, ...) __attribute__((format(printf, 2, 3)));

void do_trigger(int ev, int nested);
void do_hold_exit(cat_status st, int nested);

/* ---- monitors (mon.c) ---- */
void mon_init(void);
void mon_input(uint8_t b);
void mon_output(uint8_t b);
void mon_service_begin(void);
void mon_service_end(cat_status s, int status_known);
void mon_ro_check(void);
int  mon_at_line_boundary(void);
int  mon_evt_idle(void);
int  mon_hold_pending(void);
int  mon_hold_phase(void);      /* 0 none, 1 held, 2 release requested */
void mon_trigger(int ev, cat_status s);
void mon_trigger_unknown(int ev);
int  mon_trigger_ambiguous(void);
void mon_hold_exit(int stbit, cat_status ret, int ret_hidden);
void mon_q_full(cat_status s);
void mon_q_buffered(int ev, int any, cat_status s);
void mon_q_processed(int cmd);
void mon_busy_answer(cat_status s);
void mon_hold_answer(cat_status s);

/* ---- fifo / matcher (fifo.c) ---- */
#define NLMARK 0x01
enum { K_EXACT = 1, K_FLEX = 2, K_RESULT = 3 };
void fifo_push(struct fifo *f, int kind, const uint8_t *bytes, int n);
int  fifo_empty(const struct fifo *f);
int  fifo_head(const struct fifo *f, int *kind, const uint8_t **bytes, int *n);
void fifo_pop(struct fifo *f);
void fifo_set_result_mask(struct fifo *f, int mask);   /* head must be an unstarted K_RESULT */
int  fifo_head_is_result(const struct fifo *f);
int  unit_step(struct fifo *f, uint8_t b, int commit);  /* 0 mismatch, 1 accepted, 2 accepted+complete */
void fifo_describe_head(const struct fifo *f, char *out, size_t n);
int  flex_eq(const uint8_t *pat, int plen, const uint8_t *data, size_t dlen);

/* ---- reference (ref.c) ---- */
void ref_on_line(const uint8_t *line, int len);
int  ref_prefix_doomed(const uint8_t *line, int len);
void ref_on_doomed_line(int reason, int crlf);
void ref_begin_event(int ev);           /* initialise M.e for W.ev[ev] and run silent steps */
void ref_line_completed(void);
int  cmd_enabled(int i);
extern struct mon *M;
void evt_observable(void);              /* mon.c: an observable of the current event happened */
void evt_advance(void);
void evt_maybe_complete(void);
void hold_implicit_request(int stbit);

int  ref_expect_handler(int evt, int kind, int cmd, const uint8_t *data, size_t size, size_t args_num, size_t max, int *nonterm_left);
void ref_handler_returned(int evt, int kind, int code, const uint8_t *data, size_t size);
int  ref_inv_count(int evt);
void ref_var_cb(int is_write, int cmd, int var, size_t write_size, int result);

#endif
