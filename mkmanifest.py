#!/usr/bin/env python3
"""Regenerates MANIFEST.json from scenarios.PLANS (claimed) and NOT_APPLICABLE below."""
import json, os
import scenarios
HERE = os.path.dirname(os.path.abspath(__file__))
ids = [json.loads(l)["id"] for l in open(os.path.join(HERE, "properties.jsonl"))]
NOTES = {
    # property -> (level text, level note, design ref)
}
DEFAULT_NOTE = ("Trusted base: the harness (engine/*.c), its line-level reference model written from the property statements, gcc/clang, "
                "and the stated bounds (alphabets, lengths, budgets, capacities). The real src/cat.c is executed unmodified; there is no separate model.")
checks = []
for i in ids:
    if i not in scenarios.PLANS:
        continue
    q = scenarios.plan(i, "quick")
    t = scenarios.plan(i, "thorough")
    text = NOTES.get(i, (None,))[0] or ("Bounded exhaustive exploration of the real implementation: %s. Quick bounds: %s. Thorough bounds: %s."
                                         % (q.get("technique", ""), q.get("bounds", ""), t.get("bounds", "")))
    checks.append({
        "property_id": i,
        "quick_cmd": "python3 check.py %s --tier quick" % i,
        "thorough_cmd": "python3 check.py %s --tier thorough" % i,
        "evidence_file": "/verif/evidence/%s.json" % i,
        "replay_cmd_template": "python3 replay.py {path}",
        "engine": "mcx",
        "level_claimed": {"category": "model_checking", "text": text, "design_ref": "DESIGN.md section 5 (%s)" % i},
        "level_note": DEFAULT_NOTE,
        "technique": q.get("technique", "explicit-state model checking of the real code"),
    })
na = [{"property_id": i, "reason": "check under construction in this round (DESIGN.md section 5); will be claimed once built and run end to end"}
      for i in ids if i not in scenarios.PLANS]
m = {
    "version": 1,
    "setup_cmd": "make -s -C /verif -j16 all",
    "hooks": {"guard": "CAT_VERIF", "enable": "no source hooks are needed: every check compiles /repo/src/cat.c unmodified from the working tree (make REPO=/repo)",
              "baseline_off_cmd": "cmake -G Ninja -B /repo/_build -S /repo && cmake --build /repo/_build && ctest --test-dir /repo/_build -j8 --timeout 900",
              "source_commits": [], "add_only": True},
    "engines": [{"name": "mcx", "path": "/verif/engine", "serves_properties": [c["property_id"] for c in checks],
                 "kind_free_text": "explicit-state explorer over the real cat.c: memcpy snapshots, 128-bit visited set, choice points in io/handler/mutex callbacks, incremental reference model and monitors"}],
    "checks": checks,
    "not_applicable": na,
    "notes": "Six genuine defects of the pinned tree were repaired by 'fix:' commits in /repo (F1-F5 announced by the property texts, F6 found by the C12 check; see known_findings.txt and DESIGN.md section 2).",
}
json.dump(m, open(os.path.join(HERE, "MANIFEST.json"), "w"), indent=1)
print("claimed:", [c["property_id"] for c in checks], "not claimed:", [x["property_id"] for x in na])
