/* C02: the invoked handler is the one selected by name resolution and suffix.
 * The descriptor itself is the search space. */
#include "sweep.h"

static const char *NAMES[14] = {"A", "B", "AA", "AB", "BA", "BB", "AAA", "AAB", "ABA", "ABB", "BAA", "BAB", "BBA", "BBB"};

static int run_lines_for_table(int k, int lower)
{
        /* every typed name of length 1..4 over {A,B} in the four suffix forms */
        static const char *SUF[5] = {"", "?", "=1", "=?", "="};
        uint8_t line[32];
        for (int len = 1; len <= 4; len++)
                for (int bits = 0; bits < (1 << len); bits++)
                        for (int s = 0; s < 5; s++) {
                                int n = 0;
                                line[n++] = 'A'; line[n++] = 'T';
                                for (int i = 0; i < len; i++) line[n++] = (uint8_t)(((bits >> i) & 1 ? 'B' : 'A') + (lower ? 32 : 0));
                                for (const char *p = SUF[s]; *p; p++) line[n++] = (uint8_t)*p;
                                line[n++] = '\n';
                                SW.cases++;
                                if (sw_line(line, n)) return 1;
                                if ((SW.runs % 400009) == 1) sw_sample(line, n, "table");
                        }
        (void)k;
        return 0;
}

static int family_small(int maxk)
{
        int idx = 0;
        for (int k = 1; k <= maxk; k++) {
                int total = 1;
                for (int i = 0; i < k; i++) total *= 14;
                for (int code = 0; code < total; code++, idx++) {
                        if (idx % SW.nshards != SW.shard) continue;
                        struct wcmd *c = sw_table(k);
                        int x = code;
                        for (int i = 0; i < k; i++) { strcpy(c[i].name, NAMES[x % 14]); x /= 14; c[i].hmask = HM_W | HM_R | HM_U | HM_T; }
                        sw_caps(8, 0);
                        W.line_max = 40;
                        W.mon = P_ALL;
                        world_build();
                        for (int impl = -1; impl < k; impl++) {
                                for (int i = 0; i < k; i++) { W.cmd[i].implicit = (i == impl); W.cmd[i].hmask = (i == impl) ? HM_W : (HM_W | HM_R | HM_U | HM_T); }
                                for (int fl = 0; fl < (1 << k); fl++) {
                                        for (int i = 0; i < k; i++) W.cmd[i].disable = (uint8_t)((fl >> i) & 1);
                                        snprintf(SW.extra, sizeof SW.extra, "family=small-tables size=%d code=%d implicit=%d disabled-mask=%d", k, code, impl, fl);
                                        if (run_lines_for_table(k, 0)) return 1;
                                        if (k <= 2 && run_lines_for_table(k, 1)) return 1;
                                }
                        }
                        if ((code & 63) == 0 && sw_expired()) return 0;
                }
        }
        return 0;
}

/* every legal name character in both letter cases in the descriptor, every byte value typed in its place */
static int family_alphabet(void)
{
        static const char LEGAL[] = "ABCDEFGHIJKLMNOPQRSTUVWXYZ0123456789+#$@_%&abcdefghijklmnopqrstuvwxyz";
        int idx = 0;
        for (const char *p = LEGAL; *p; p++, idx++) {
                if (idx % SW.nshards != SW.shard) continue;
                struct wcmd *c = sw_table(2);
                snprintf(c[0].name, sizeof c[0].name, "Q%c", *p);       c[0].hmask = HM_U | HM_R;
                snprintf(c[1].name, sizeof c[1].name, "Q%cX", *p);      c[1].hmask = HM_U | HM_W;
                sw_caps(8, 0);
                W.line_max = 40; W.mon = P_ALL;
                world_build();
                snprintf(SW.extra, sizeof SW.extra, "family=alphabet descriptor-char=%c", *p);
                for (int b = 0; b < 256; b++) {
                        uint8_t l1[16] = {'A', 'T', 'Q', (uint8_t)b, '\n'};
                        uint8_t l2[16] = {'a', 't', 'q', (uint8_t)b, 'x', '\n'};
                        uint8_t l3[16] = {'A', 'T', 'Q', (uint8_t)b, '?', '\n'};
                        uint8_t l4[16] = {'A', 'T', 'q', (uint8_t)b, 'X', '=', (uint8_t)b, '\n'};
                        SW.cases += 4;
                        if (sw_line(l1, 5) || sw_line(l2, 6) || sw_line(l3, 6) || sw_line(l4, 8)) return 1;
                        if (b == 'z' || b == '`') sw_sample(l2, 6, "alphabet");
                }
        }
        return 0;
}

/* big tables: bit lanes of the match table, several groups */
static int family_lanes(void)
{
        static const int NS[] = {4, 5, 8, 9, 16, 17, 33, 64, 100, 257};
        int idx = 0;
        for (int ni = 0; ni < 10; ni++) {
                int N = NS[ni];
                int w = 1;
                for (int t = 4; t < N; t *= 4) w++;
                /* cut positions for up to three groups */
                int cuts[64][2], ncuts = 0;
                cuts[ncuts][0] = N; cuts[ncuts][1] = N; ncuts++;             /* one group */
                if (N <= 9) {
                        for (int a = 1; a < N; a++) { cuts[ncuts][0] = a; cuts[ncuts][1] = N; ncuts++; }
                        for (int a = 1; a < N && ncuts < 60; a++) for (int b = a + 1; b < N && ncuts < 60; b++) { cuts[ncuts][0] = a; cuts[ncuts][1] = b; ncuts++; }
                } else {
                        int cand[6] = {3, 4, 5, N / 2, (N / 4) * 4, N - 1};
                        for (int i = 0; i < 6; i++) if (cand[i] > 0 && cand[i] < N) { cuts[ncuts][0] = cand[i]; cuts[ncuts][1] = N; ncuts++; }
                        cuts[ncuts][0] = 4; cuts[ncuts][1] = 9 < N ? 9 : N - 1; ncuts++;
                }
                for (int ci = 0; ci < ncuts; ci++)
                for (int tight = 0; tight < 3; tight++)        /* 2: tight command buffer next to a configured event buffer of size 0 */
                for (int gd = -1; gd < 3; gd++, idx++) {
                        if (idx % SW.nshards != SW.shard) continue;
                        int ngr = 1 + (cuts[ci][0] < N) + (cuts[ci][1] < N);
                        if (gd >= ngr) continue;
                        struct wcmd *c = sw_table(N);
                        for (int i = 0; i < N; i++) {
                                char *q = c[i].name;
                                *q++ = 'C';
                                for (int d = w - 1; d >= 0; d--) *q++ = (char)('0' + ((i >> (2 * d)) & 3));
                                *q++ = 'X'; *q = 0;
                                c[i].hmask = HM_U;
                                c[i].group = (uint8_t)((i >= cuts[ci][0]) + (i >= cuts[ci][1]));
                        }
                        W.ngrp = ngr;
                        memset(W.grp_disable, 0, sizeof W.grp_disable);
                        if (gd >= 0) W.grp_disable[gd] = 1;
                        int cap = (N + 3) / 4;
                        if (cap < 6) cap = 6;
                        sw_caps(cap + (tight ? 0 : 3), tight == 1);
                        if (tight == 2) W.ubuf_size = 0;
                        W.line_max = 40; W.mon = P_ALL;
                        world_build();
                        snprintf(SW.extra, sizeof SW.extra, "family=lanes N=%d cuts=%d,%d disabled-group=%d cap=%d", N, cuts[ci][0], cuts[ci][1], gd, W.cap);
                        for (int i = 0; i < N; i++) {
                                uint8_t line[32];
                                int n = 0;
                                line[n++] = 'A'; line[n++] = 'T';
                                int nl = (int)strlen(c[i].name);
                                memcpy(line + n, c[i].name, (size_t)nl);
                                /* exact, unique abbreviation (without the final X), ambiguous abbreviation (one digit short) */
                                int lens[3] = {nl, nl - 1, nl - 2};
                                for (int v = 0; v < 3; v++) {
                                        if (lens[v] < 1) continue;
                                        int m = n + lens[v];
                                        line[m] = '\n';
                                        SW.cases++;
                                        if (sw_line(line, m + 1)) return 1;
                                        if (i == N - 1 && v == 1 && ci == 0 && gd < 0) sw_sample(line, m + 1, "lanes");
                                }
                        }
                        if (sw_expired()) return 0;
                }
        }
        return 0;
}

/* every byte value as the first, second and third byte of a line, and between two lines (flow-control and other control
 * bytes, high bytes): a line is a line from its first non-CR/LF byte on; busy / idle is probed after every call */
static int family_firstbyte(void)
{
        int idx = 0;
        for (int layout = 0; layout < 3; layout++, idx++) {
                if (idx % SW.nshards != SW.shard) continue;
                struct wcmd *c = sw_table(3);
                strcpy(c[0].name, "A"); c[0].hmask = HM_U | HM_R | HM_T;
                strcpy(c[1].name, "+B"); c[1].hmask = HM_U | HM_W; c[1].nvar = 1;
                c[1].var[0] = (struct wvar){.type = CAT_VAR_UINT_DEC, .size = 1, .access = CAT_VAR_ACCESS_READ_WRITE};
                strcpy(c[2].name, "D"); c[2].hmask = HM_W; c[2].implicit = 1;
                sw_caps(8, layout);
                W.line_max = 40; W.mon = P_ALL;
                world_build();
                snprintf(SW.extra, sizeof SW.extra, "family=firstbyte layout=%d", layout);
                static const char *REST[8] = {"ATA\n", "AT+B=7\r\n", "ATD1\n", "\n", "ATA?\r\n", "AT+B=?\r\n", "AT+B?\n", "ATA=?\n"};
                for (int b = 0; b < 256; b++)
                        for (int pos = 0; pos < 10; pos++)
                                for (int r = 0; r < 8; r++) {
                                        uint8_t line[32]; int n = 0;
                                        const char *rest = REST[r];
                                        int rl = (int)strlen(rest);
                                        if (pos > rl) continue;
                                        memcpy(line, rest, (size_t)pos); n = pos;
                                        line[n++] = (uint8_t)b;
                                        memcpy(line + n, rest + pos, (size_t)(rl - pos)); n += rl - pos;
                                        memcpy(line + n, "ATA?\n", 5); n += 5;      /* a second line shows where the first one ended */
                                        SW.cases++;
                                        if (sw_line(line, n)) return 1;
                                }
        }
        return 0;
}

/* crowds: K commands sharing one prefix (counters of candidates and table indices narrower than size_t), then one outsider */
static int family_crowd(int big)
{
        static const int KS[] = {3, 255, 256, 257, 258, 511, 512, 513, 1023, 1025, 65535, 65536, 65537};
        int idx = 0;
        for (int ki = 0; ki < (big ? 13 : 10); ki++)
                for (int gsplit = 0; gsplit < 2; gsplit++, idx++) {
                        if (idx % SW.nshards != SW.shard) continue;
                        int K = KS[ki];
                        struct wcmd *c = sw_table(K + 1);
                        for (int i = 0; i < K; i++) { snprintf(c[i].name, sizeof c[i].name, "+C%05d", i); c[i].hmask = HM_U | ((i & 1) ? HM_R : 0); c[i].group = (uint8_t)(gsplit && i >= K / 2); }
                        strcpy(c[K].name, "+Z"); c[K].hmask = HM_U; c[K].group = (uint8_t)gsplit;
                        W.ngrp = 1 + gsplit;
                        sw_caps((K + 4) / 4 + 8, 0);
                        /* huge tables: the per-call whole-state hashes of the stutter / OK-stable monitors are switched off (16 KiB per call) */
                        W.line_max = 40; W.mon = K > 2000 ? (P_ALL & ~(unsigned)(P_C12 | P_C15)) : P_ALL;
                        world_build();
                        snprintf(SW.extra, sizeof SW.extra, "family=crowd candidates=%d groups=%d", K, W.ngrp);
                        char l[8][24];
                        snprintf(l[0], 24, "AT+C\n");                          /* K candidates, none exact: ERROR */
                        snprintf(l[1], 24, "AT+C00000\n");
                        snprintf(l[2], 24, "AT+C%05d\n", K - 1);
                        snprintf(l[3], 24, "AT+C%05d?\n", K - 2 + ((K - 2) & 1 ? 0 : 1) < K ? K - 2 + ((K - 2) & 1 ? 0 : 1) : 1);
                        snprintf(l[4], 24, "AT+Z\n");
                        snprintf(l[5], 24, "AT+C0000\n");                      /* ten candidates (or fewer) */
                        snprintf(l[6], 24, "AT+\n");                           /* K + 1 candidates */
                        snprintf(l[7], 24, "AT+C%05d\n", K);                   /* nobody */
                        for (int i = 0; i < 8; i++) {
                                SW.cases++;
                                if (sw_line((const uint8_t *)l[i], (int)strlen(l[i]))) return 1;
                        }
                        if (sw_expired()) return 0;
                }
        return 0;
}

int main(int argc, char **argv)
{
        sw_init(argc, argv, "tables");
        const char *fam = sw_args(argc, argv, "--family", "small");
        if (!strcmp(fam, "small")) family_small(sw_argi(argc, argv, "--maxk", 3));
        else if (!strcmp(fam, "alphabet")) family_alphabet();
        else if (!strcmp(fam, "firstbyte")) family_firstbyte();
        else if (!strcmp(fam, "crowd")) family_crowd(sw_argi(argc, argv, "--big", 1));
        else family_lanes();
        char tag[64];
        snprintf(tag, sizeof tag, "tables-%s-%d", fam, SW.shard);
        return sw_finish(tag);
}
