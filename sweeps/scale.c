/* Scale cases beyond the descriptors the shared harness builds (C07, C11, C08): commands with 255..300 variables and
 * single variables printing 2^16 characters and more, through the command machine and the event machine, with exact
 * expected output and a READ -> WRITE round trip.  Stand-alone (no reference model needed: the expected text is a list
 * of decimal numbers / one quoted string / one hex string); eager environment; every case is compared byte for byte. */
#include "cat.h"
#include <stdio.h>
#include <stdlib.h>
#include <string.h>
#include <time.h>

static char *in_p; static size_t in_n, in_pos;
static char *out; static size_t out_n, out_cap;
static int rd(char *c) { if (in_pos >= in_n) return 0; *c = in_p[in_pos++]; return 1; }
static int wr(char c) { if (out_n + 1 >= out_cap) return 0; out[out_n++] = c; out[out_n] = 0; return 1; }
static struct cat_io_interface io = {.write = wr, .read = rd};

static struct cat_object at;
static struct cat_variable *vars;
static struct cat_command cmd;
static struct cat_command_group grp, *grps[1];
static struct cat_descriptor desc;
static uint8_t *buf, *ubuf, *store;
static char msg[400], replay_path[600];
static const char *replay_dir = "replays", *prop = "C07";
static long cases, calls;

static int service_all(void)
{
        for (long k = 0; k < 40000000L; k++) {
                calls++;
                if (cat_service(&at) == CAT_STATUS_OK && in_pos >= in_n) return 0;
        }
        return -1;
}

static int fail(const char *what, const char *cfg)
{
        snprintf(msg, sizeof msg, "%s (%s)", what, cfg);
        return 1;
}

static int expect_out(const char *exp, size_t n, const char *what, const char *cfg)
{
        if (out_n != n || memcmp(out, exp, n) != 0) {
                char w[300];
                size_t d = 0; while (d < n && d < out_n && out[d] == exp[d]) d++;
                snprintf(w, sizeof w, "%s: output differs from the expected text at offset %zu (got %zu bytes, expected %zu)", what, d, out_n, n);
                return fail(w, cfg);
        }
        return 0;
}

/* one case: nvar variables of one kind; kind 0: uint8 list, 1: one string of len chars, 2: one hex buffer of len bytes */
static int run_case(int kind, size_t nvar, size_t len, int shared)
{
        char cfg[160];
        snprintf(cfg, sizeof cfg, "kind=%s nvar=%zu len=%zu layout=%s", kind == 0 ? "uint8-list" : kind == 1 ? "string" : "hexbuf", nvar, len, shared ? "shared" : "separate");
        size_t text = kind == 0 ? nvar * 4 + 16 : kind == 1 ? len + 16 : 2 * len + 16;
        size_t half = text + 64;
        free(buf); free(ubuf); free(vars); free(store); free(out); free(in_p);
        buf = calloc(1, shared ? 2 * half : half); ubuf = shared ? NULL : calloc(1, half);
        vars = calloc(nvar, sizeof *vars);
        size_t ssz = kind == 0 ? nvar : len + 1;
        store = calloc(1, ssz + 1);
        out_cap = 4 * text + 256; out = calloc(1, out_cap); in_p = calloc(1, text + 64);
        char *exp = calloc(1, text + 64), *args = calloc(1, text + 64);
        size_t an = 0;
        if (kind == 0) {
                for (size_t i = 0; i < nvar; i++) {
                        store[i] = (uint8_t)((i * 7 + 3) % 251);
                        vars[i] = (struct cat_variable){.type = CAT_VAR_UINT_DEC, .data = &store[i], .data_size = 1, .access = CAT_VAR_ACCESS_READ_WRITE};
                        an += (size_t)sprintf(args + an, "%s%u", i ? "," : "", (unsigned)store[i]);
                }
        } else if (kind == 1) {
                for (size_t i = 0; i < len; i++) store[i] = (uint8_t)('a' + i % 26);
                vars[0] = (struct cat_variable){.type = CAT_VAR_BUF_STRING, .data = store, .data_size = len + 1, .access = CAT_VAR_ACCESS_READ_WRITE};
                args[an++] = '"'; memcpy(args + an, store, len); an += len; args[an++] = '"';
        } else {
                for (size_t i = 0; i < len; i++) { store[i] = (uint8_t)(i * 13 + 1); an += (size_t)sprintf(args + an, "%02X", (unsigned)store[i]); }
                vars[0] = (struct cat_variable){.type = CAT_VAR_BUF_HEX, .data = store, .data_size = len, .access = CAT_VAR_ACCESS_READ_WRITE};
        }
        cmd = (struct cat_command){.name = "+E", .var = vars, .var_num = nvar};
        grp = (struct cat_command_group){.cmd = &cmd, .cmd_num = 1}; grps[0] = &grp;
        desc = (struct cat_descriptor){.cmd_group = grps, .cmd_group_num = 1, .buf = buf, .buf_size = shared ? 2 * half : half, .unsolicited_buf = ubuf, .unsolicited_buf_size = shared ? 0 : half};
        memset(&at, 0, sizeof at);
        cat_init(&at, &desc, &io, NULL);
        int r = 0;
        uint8_t *keep = malloc(ssz); memcpy(keep, store, ssz);
        /* (1) READ by request */
        size_t en = (size_t)sprintf(exp, "\n+E="); memcpy(exp + en, args, an); en += an; en += (size_t)sprintf(exp + en, "\n\nOK\n");
        in_n = (size_t)sprintf(in_p, "AT+E?\n"); in_pos = 0; out_n = 0; cases++;
        if (service_all()) r = fail("READ request: no quiescence", cfg);
        if (!r) r = expect_out(exp, en, "READ request", cfg);
        /* (2) READ by event */
        if (!r) {
                en = (size_t)sprintf(exp, "\n+E="); memcpy(exp + en, args, an); en += an; exp[en++] = '\n';
                in_n = 0; in_pos = 0; out_n = 0; cases++;
                if (cat_trigger_unsolicited_read(&at, &cmd) != CAT_STATUS_OK) r = fail("trigger refused", cfg);
                if (!r && service_all()) r = fail("READ event: no quiescence", cfg);
                if (!r) r = expect_out(exp, en, "READ event", cfg);
        }
        /* (3) the text written back restores every byte */
        if (!r) {
                memset(store, 0, ssz);
                in_n = (size_t)sprintf(in_p, "AT+E="); memcpy(in_p + in_n, args, an); in_n += an; in_p[in_n++] = '\n'; in_pos = 0; out_n = 0; cases++;
                if (service_all()) r = fail("WRITE back: no quiescence", cfg);
                if (!r) r = expect_out("\nOK\n", 4, "WRITE back", cfg);
                if (!r && memcmp(store, keep, kind == 1 ? len : ssz) != 0) r = fail("WRITE back did not restore the stored bytes", cfg);
        }
        free(keep); free(exp); free(args);
        return r;
}

int main(int argc, char **argv)
{
        int shard = 0, nshards = 1;
        for (int i = 1; i + 1 < argc; i += 2) {
                if (!strcmp(argv[i], "--shard")) shard = atoi(argv[i + 1]);
                else if (!strcmp(argv[i], "--nshards")) nshards = atoi(argv[i + 1]);
                else if (!strcmp(argv[i], "--replay-dir")) replay_dir = argv[i + 1];
                else if (!strcmp(argv[i], "--prop")) prop = argv[i + 1];
        }
        struct timespec t0, t1; clock_gettime(CLOCK_MONOTONIC, &t0);
        static const size_t NV[] = {16, 17, 255, 256, 257, 300, 1000};
        static const size_t SL[] = {255, 256, 65530, 65534, 65535, 65536, 65540, 70000, 131072};
        static const size_t HL[] = {127, 128, 32766, 32767, 32768, 33000, 65536};
        int idx = 0, bad = 0;
        for (int shared = 0; shared < 2 && !bad; shared++) {
                for (int i = 0; i < 7 && !bad; i++, idx++) if (idx % nshards == shard) bad = run_case(0, NV[i], 0, shared);
                for (int i = 0; i < 9 && !bad; i++, idx++) if (idx % nshards == shard) bad = run_case(1, 1, SL[i], shared);
                for (int i = 0; i < 7 && !bad; i++, idx++) if (idx % nshards == shard) bad = run_case(2, 1, HL[i], shared);
        }
        clock_gettime(CLOCK_MONOTONIC, &t1);
        if (bad) {
                snprintf(replay_path, sizeof replay_path, "%s/%s_scale_%d.replay", replay_dir, prop, shard);
                FILE *f = fopen(replay_path, "w");
                if (f) { fprintf(f, "# scale sweep: re-run build/<dir>/sw_scale --shard %d --nshards %d (deterministic)\nprop %s\nmsg %s\n", shard, nshards, prop, msg); fclose(f); }
        }
        printf("{\"tag\":\"scale-%d\",\"states\":%ld,\"transitions\":%ld,\"runs\":%ld,\"cases\":%ld,\"distinct\":%ld,\"exhaustive\":%s,\"capped\":0,\"wall_s\":%.3f,\"violations\":%d,"
               "\"samples\":[\"scale sweep: %ld request/event/write-back cases compared byte for byte with the expected text\"]",
               shard, cases ? cases : 1, calls ? calls : 1, cases, cases, cases ? cases : 1, bad ? "false" : "true", (t1.tv_sec - t0.tv_sec) + (t1.tv_nsec - t0.tv_nsec) * 1e-9, bad ? 1 : 0, cases);
        if (bad) printf(",\"replay\":\"%s\",\"msg\":\"%s\"", replay_path, msg);
        printf("}\n");
        return bad ? 1 : 0;
}
