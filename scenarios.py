"""Scenario plans: for each property and tier, the list of shards (binary + arguments).
Every shard is an exhaustive exploration of one configuration; the union is the
property's explored space (see DESIGN.md section 5)."""
import itertools

DEV = r"\r\n\0?=\s\x80a,"       # deviation alphabet: CR LF NUL ? = space 0x80 lower-case-letter comma


def mcx(tag, ring=1, asan=False, **kw):
    args = []
    for k, v in kw.items():
        flag = "--" + k.replace("_", "-")
        if k in ("D",):
            flag = "--D"
        if k.startswith("codes_") or k.startswith("ecodes_"):
            flag = "--" + k.replace("_", "-")
        args += [flag, v]
    return {"tag": tag, "bin": ("mcxasan_r%d" if asan else "mcx_r%d") % ring, "args": args}


def sweep(tag, name, *args, asan=False):
    return {"tag": tag, "bin": ("swasan_" if asan else "sw_") + name, "args": list(args)}


# ---------------------------------------------------------------- tables

T_AMBIG = "+TA:UW;+TB:UR,vu1rw;Z:UT;+TAB:W"          # ambiguous '+', '+T', '+TA' exact-vs-prefix of +TAB
T_APT = ["A:U;AP:UW;+TEST:URWT", "AP:UW;A:U;+TEST:URWT", "+TEST:URWT;AP:UW;A:U", "A:U;+TEST:URWT;AP:UW", "AP:UW;+TEST:URWT;A:U", "+TEST:URWT;A:U;AP:UW"]
T_IMPL = "D:W,i;+O:T,o,vu1rw;+X:U;+OX:R"             # implicit write, only-test, exact/prefix pair


def c01_shards(tier):
    sh = []
    quick = tier == "quick"
    tables = [("ambig", T_AMBIG, "+TABZ"), ("impl", T_IMPL, "+DOX")] + [("apt%d" % i, t, "AP+TES") for i, t in enumerate(T_APT if not quick else T_APT[:2])]
    caps = [(6, 0), (7, 0), (6, 1), (16, 0)] if not quick else [(6, 0), (6, 1), (16, 0)]
    for (tn, t, alpha), (cap, shared) in itertools.product(tables, caps):
        sh.append(mcx("lines-%s-cap%d-sh%d" % (tn, cap, shared), prop="C01", table=t, cap=cap, shared=shared, name_alpha=alpha, args_alpha="1A",
                      max_name=3 if quick else 4, max_args=(cap + 1) if cap <= 7 else 3, D=1 if quick else 2, dev=DEV, lines=2, crlf=1, blank=1, lower=0,
                      refuse_read=1, refuse_write=1, codes_W="OK,ERROR,NEXT,HOLD", codes_R="OK,DATA_OK,DATA_NEXT,ERROR", codes_U="OK,ERROR,LIST,HOLD",
                      codes_T="OK,DATA_OK,ERROR", max_inv=1, act="hold", mon="C01"))
    # unrestricted short byte strings
    for cap in ([6] if quick else [6, 7]):
        sh.append(mcx("free-cap%d" % cap, prop="C01", table=T_AMBIG, cap=cap, gen_mode="free", free_alpha=r"AT+=?\r\0Z,", free_len=7 if quick else 9, lines=2,
                      refuse_read=1, refuse_write=1, codes_W="OK,ERROR", codes_U="OK,ERROR", mon="C01"))
    return sh


PLANS = {}


def plan(prop, tier):
    f = PLANS.get(prop)
    if not f:
        raise SystemExit("no plan for " + prop)
    return f(tier)


def p_c01(tier):
    return {"shards": c01_shards(tier), "require": ["lines_done", "ambiguous_eq", "ambiguous_lf", "overlong", "drain_err", "notfound", "lines_hold"],
            "technique": "explicit-state model checking of the real parser (DFS with state matching over all input bytes, io refusals, handler codes)",
            "bounds": "tables ambig/impl/A-AP-+TEST orders; cap 6,7,16 shared+separate; grammar lines with <=%d deviations, names <=%d, 2 lines; all byte strings <=%d over 10 symbols"
                      % ((1, 3, 5) if tier == "quick" else (2, 4, 7)),
            "assumptions": ["handlers eventually return a terminal code (at most 1 NEXT per line)", "descriptor inside the supported domain"]}


PLANS["C01"] = p_c01


# ---------------------------------------------------------------- C10 codes

ALLC_WU = "OK,ERROR,DATA_OK,DATA_NEXT,NEXT,HOLD,HEXIT_OK,HEXIT_ERR,LIST,-2,9"
ALLC_RT = "OK,ERROR,DATA_OK,DATA_NEXT,NEXT,HOLD,LIST"
ALLE = "OK,ERROR,DATA_OK,DATA_NEXT,NEXT,HEXIT_OK,HEXIT_ERR,LIST,-2,9"
T_CODES = "+W:W;+V:W,vu1rw/w,vi1rw/w;+R:R,vu1rw/r,vu1ro/r;+N:R;+U:U;+T:T,vu1rw@x,D=dd;+M:T||+e:R,vu1ro/r;+f:T,D=ee;+g:R"


def c10_shards(tier, mon="C10", prop="C10"):
    quick = tier == "quick"
    sh = []
    inv = 5 if quick else 8
    for tok in (0, 1):
        for shared in (0, 1):
            # command machine, one command kind per shard
            for nm, alpha, sm in (("W", "+WV", 4), ("R", "+RN", 2), ("U", "+U", 1), ("T", "+TM", 8)):
                sh.append(mcx("codes-cmd-%s-tok%d-sh%d" % (nm, tok, shared), prop=prop, table=T_CODES, cap=24, shared=shared, name_alpha=alpha, max_name=2,
                              args_alpha="1,", max_args=3, suffix_mask=sm, lines=1, refuse_read=1, refuse_write=1,
                              codes_W=ALLC_WU, codes_U=ALLC_WU, codes_R=ALLC_RT, codes_T=ALLC_RT, max_inv=inv, tok=tok, varcb_fail=1, act="hold", mon=mon))
            # event machine
            sh.append(mcx("codes-evt-tok%d-sh%d" % (tok, shared), prop=prop, table=T_CODES, cap=24, shared=shared, name_alpha="+U", max_name=2, suffix_mask=1,
                          lines=1, refuse_read=1, refuse_write=1, codes_U="OK,HOLD", ecodes_R=ALLE, ecodes_T=ALLE, max_inv=inv, tok=tok, varcb_fail=1,
                          ev="+e:R,+f:T,+g:R", act="trigger,hold", trig_budget=2, mon=mon))
    return sh


def p_c10(tier):
    return {"shards": c10_shards(tier), "require": ["lines_done", "ev_done", "list_lines", "lines_hold"],
            "technique": "explicit-state model checking: every return-code sequence (<=%d non-terminal codes) of every handler kind in both machines, all io refusal patterns" % (5 if tier == "quick" else 8),
            "bounds": "all 9 codes plus -2 and 9 for write/run and event handlers; read/test command handlers: the 7 codes the statement defines; variable callbacks failing at every position; buffers shared and separate; token and pass-through handlers",
            "assumptions": ["HOLD_EXIT_* and out-of-range codes from command read/test handlers and HOLD from event handlers are outside the statement and not generated"]}


PLANS["C10"] = p_c10

# ---------------------------------------------------------------- C11 duplex

T_DUP = "+S:R,vu1rw;Z:U;+H:W||+u:vu1ro;+h:R,vu1ro;+t:T,D=dd;+d"
EV_DUP = "+u:R,+h:R,+t:T,+d:R"


def duplex(tag, ring, shared, budget, prop, mon, extra=None, asan=False):
    kw = dict(prop=prop, table=T_DUP, cap=16, shared=shared, name_alpha="+SZH", max_name=2, args_alpha="1", max_args=1, suffix_mask=7, lines=1, crlf=1,
              refuse_read=1, refuse_write=1, codes_R="OK,DATA_OK,DATA_NEXT", codes_U="OK,LIST", codes_W="OK,HOLD", ecodes_R="OK,DATA_OK,DATA_NEXT,HEXIT_OK",
              ecodes_T="OK,DATA_OK,DATA_NEXT", max_inv=1, tok=1, ev=EV_DUP, act="trigger,hold", trig_budget=budget, h_trigger=1, mon=mon)
    if extra:
        kw.update(extra)
    return mcx(tag, ring=ring, asan=asan, **kw)


def c11_shards(tier, prop="C11", mon="C11"):
    quick = tier == "quick"
    sh = []
    for ring in ((1, 2) if quick else (1, 2, 3)):
        for shared in (0, 1):
            sh.append(duplex("duplex-r%d-sh%d" % (ring, shared), ring, shared, 3 if quick else 4, prop, mon))
    return sh


def p_c11(tier):
    return {"shards": c11_shards(tier), "require": ["units_cmd", "units_evt", "both_want_flush", "list_lines", "lines_hold"],
            "technique": "explicit-state model checking of the two flush engines: all interleavings of cat_service, triggers (also from inside handlers), input arrival, write refusals",
            "bounds": "ring capacity 1,2%s; trigger budget %d; events auto-READ, handler-READ(DATA_NEXT), TEST+description, fails-at-once; commands: multi-unit READ, command list, held WRITE"
                      % ("" if tier == "quick" else ",3", 3 if tier == "quick" else 4),
            "assumptions": ["event commands are distinct from the commands reachable from the input stream"]}


PLANS["C11"] = p_c11

# ---------------------------------------------------------------- C12 schedule independence


def p_c12(tier):
    sh = []
    # premise: a refused-only call changes nothing (checked in every state), on the C01 and C10 families
    for s in c01_shards(tier):
        a = list(s["args"]); a[a.index("--mon") + 1] = "C12"; a[a.index("--prop") + 1] = "C12"
        sh.append({"tag": "stutter-" + s["tag"], "bin": s["bin"], "args": a})
    for s in c10_shards(tier, mon="C12", prop="C12"):
        if "-sh0" in s["tag"]:
            sh.append({"tag": "stutter-" + s["tag"], "bin": s["bin"], "args": s["args"]})
    # black box: failed reads scribble over *ch; every schedule must still agree with the reference
    quick = tier == "quick"
    for tn, t, alpha in (("ambig", T_AMBIG, "+TABZ"), ("impl", T_IMPL, "+DOX")):
        sh.append(mcx("scribble-%s" % tn, prop="C12", table=t, cap=6, name_alpha=alpha, args_alpha="1A", max_name=3 if quick else 4, max_args=7, D=1, dev=DEV,
                      lines=2, crlf=1, blank=1, refuse_read=1, refuse_write=1, scribble=1, codes_W="OK,ERROR,NEXT", codes_R="OK,DATA_OK,DATA_NEXT,ERROR",
                      codes_U="OK,ERROR,LIST", codes_T="OK,DATA_OK,ERROR", max_inv=1, mon="C12"))
    return {"shards": sh, "require": ["lines_done", "stutters_checked"],
            "technique": "explicit-state model checking: stutter premise (refused io leaves the whole parser state unchanged) in every reachable state, plus all schedules against the reference with failed reads scribbling over the character cell",
            "bounds": "input families of C01 and C10; refusal runs of any length are covered by the self-loop of the stutter step",
            "assumptions": ["event-free runs for full-trace equality; with events the exactly-once delivery under back-pressure is part of C11"]}


PLANS["C12"] = p_c12

# ---------------------------------------------------------------- C13 queue

T_Q = "H:W;K:U||+a:vu1ro;+b:R,vu1ro;+c:T,D=cc;+d"


def c13_shards(tier, prop="C13", mon="C13"):
    quick = tier == "quick"
    sh = []
    ev4 = "+a:R,+b:R,+c:T,+d:R"
    # (i) event machine alone, no command traffic: full fixpoint, four event kinds, every capacity
    for ring in (1, 2, 3, 8):
        evs = ev4 if ring < 8 else "+a:R,+d:R"
        sh.append(mcx("queue-alone-r%d" % ring, ring=ring, prop=prop, table=T_Q, cap=12, shared=ring % 2, gen_mode="none", refuse_write=1,
                      ecodes_R="OK,DATA_OK,DATA_NEXT", ecodes_T="OK", max_inv=1, tok=1, ev=evs, act="trigger,queries", trig_budget=0, mon=mon))
    # (ii) with command traffic (a held command and an answering one)
    for ring in (1, 2, 3):
        for shared in (0, 1):
            full = (ring == 1) or not quick
            sh.append(mcx("queue-traffic-r%d-sh%d" % (ring, shared), ring=ring, prop=prop, table=T_Q, cap=12, shared=shared, name_alpha="HK", max_name=2, args_alpha="1", max_args=0,
                          suffix_mask=5, lines=0 if full else 1, refuse_read=1, refuse_write=1, codes_W="HOLD,OK", codes_U="OK", ecodes_R="OK,DATA_OK,DATA_NEXT", ecodes_T="OK",
                          max_inv=1, tok=1, ev=("+a:R,+b:R,+d:R" if ring < 3 else "+a:R,+d:R"), act="trigger,hold,queries", trig_budget=0 if full else ring + 2, mon=mon))
    return sh


def p_c13(tier):
    return {"shards": c13_shards(tier), "require": ["ev_accepted", "ev_full", "ev_done", "ev_silent", "lines_hold"],
            "technique": "explicit-state model checking to the full fixpoint (no trigger budget, unbounded lines): refinement of an abstract bounded FIFO with hidden pop/finish steps",
            "bounds": "capacities 1,2,3 with four event kinds, capacity 8 with two kinds; command traffic: one held command, one answering command; write refusals",
            "assumptions": ["event commands distinct from input-reachable commands"]}


PLANS["C13"] = p_c13

# ---------------------------------------------------------------- C14 hold

T_HOLD = "+W:W;+R:R,vu1rw;+U:U;+T:T,vu1rw||+e:R,vu1ro;+x:R"


def c14_shards(tier, prop="C14", mon="C14"):
    quick = tier == "quick"
    sh = []
    for nm, alpha, sm in (("W", "+W", 4), ("R", "+R", 2), ("U", "+U", 1), ("T", "+T", 8)):
        for ring in (1, 2):
            sh.append(mcx("hold-%s-r%d" % (nm, ring), ring=ring, prop=prop, table=T_HOLD, cap=16, shared=ring - 1, name_alpha=alpha, max_name=2, args_alpha="1", max_args=1,
                          suffix_mask=sm, lines=2 if quick else 3, crlf=1, refuse_read=1, refuse_write=1, codes_W="HOLD,OK", codes_R="HOLD,DATA_OK", codes_U="HOLD,OK",
                          codes_T="HOLD,OK", ecodes_R="OK,HEXIT_OK,HEXIT_ERR,DATA_OK", max_inv=1, tok=1, ev="+e:R,+x:R", act="trigger,hold", trig_budget=2 if quick else 3,
                          h_hold_exit=1, mon=mon))
    return sh


def p_c14(tier):
    return {"shards": c14_shards(tier), "require": ["lines_hold", "hold_yes", "ev_done"],
            "technique": "explicit-state model checking: every placement of release requests (main context, from inside an event handler, event handler return codes), spurious and repeated requests, events and refusals",
            "bounds": "four handler kinds entering hold; %d lines queued; trigger budget %d; two queue capacities" % ((2, 2) if tier == "quick" else (3, 3)),
            "assumptions": ["between an accepted release request and the first byte of the result code cat_is_hold / cat_hold_exit may answer either way"]}


PLANS["C14"] = p_c14

# ---------------------------------------------------------------- C15 quiescence


def p_c15(tier):
    sh = []
    for s in c11_shards("quick", prop="C15", mon="C15") + c13_shards("quick", prop="C15", mon="C15") + c14_shards("quick", prop="C15", mon="C15"):
        a = list(s["args"]) + ["--liveness", "1"]
        sh.append({"tag": "live-" + s["tag"], "bin": s["bin"], "args": a})
    for s in c01_shards("quick"):
        if "cap6-sh0" in s["tag"] or "free" in s["tag"]:
            a = list(s["args"]); a[a.index("--mon") + 1] = "C15"; a[a.index("--prop") + 1] = "C15"
            sh.append({"tag": "live-" + s["tag"], "bin": s["bin"], "args": a + ["--liveness", "1"]})
    return {"shards": sh, "require": ["ok_repeat_checked", "ev_silent", "ev_done", "lines_done"],
            "technique": "explicit-state model checking: OK-is-stable checked on every OK state; liveness by following the quiet eager continuation from every reachable state (cycle detection + distance bound)",
            "bounds": "state spaces of the duplex, queue (fixpoint), hold and lines scenarios",
            "assumptions": ["an unreleased hold is exempt from liveness (BUSY by design until cat_hold_exit)"]}


PLANS["C15"] = p_c15

# ---------------------------------------------------------------- C16 mutex


def c16_shards(tier):
    quick = tier == "quick"
    sh = []
    for ring in (1, 2):
        for sm, nm in ((1, "run"), (2, "read"), (4, "write")):
            sh.append(duplex("mutex-%s-r%d" % (nm, ring), ring, ring - 1, 2 if quick else 3, "C16", "C16",
                             extra=dict(mutex=1, faults=1, h_trigger=0, act="trigger,hold,queries", suffix_mask=sm, ev="+u:R,+h:R,+d:R", crlf=0, max_name=2)))
    return sh


def p_c16(tier):
    return {"shards": c16_shards(tier), "require": ["lock_faults", "unlock_faults", "units_evt", "lines_hold"],
            "technique": "explicit-state model checking with fault injection: in every reachable state each of the 8 locking API functions is called with lock() failing, unlock() failing and no fault",
            "bounds": "duplex scenario (commands, events, hold) with trigger budget %d, queue capacity 1 and 2" % (2 if tier == "quick" else 3),
            "assumptions": ["when the outcome of a trigger would be undetermined for the oracle (event possibly popped already) the fault is not injected in that one call"]}


PLANS["C16"] = p_c16

# ---------------------------------------------------------------- C18 busy / hold queries


def p_c18(tier):
    sh = []
    for s in c11_shards(tier, prop="C18", mon="C18") + c14_shards(tier, prop="C18", mon="C18"):
        sh.append(s)
    for s in c01_shards("quick"):
        if "cap6-sh0" in s["tag"]:
            a = list(s["args"]); a[a.index("--mon") + 1] = "C18"; a[a.index("--prop") + 1] = "C18"
            sh.append({"tag": "busy-" + s["tag"], "bin": s["bin"], "args": a})
    return {"shards": sh, "require": ["busy_ok_checked", "busy_busy", "hold_yes", "units_evt"],
            "technique": "explicit-state model checking: cat_is_busy and cat_is_hold are evaluated after every cat_service call of every explored path and compared with the harness' own lexers of input and output",
            "bounds": "state spaces of the duplex, hold and lines scenarios",
            "assumptions": []}


PLANS["C18"] = p_c18

# ---------------------------------------------------------------- C20 history independence

T_HIST = "+S:W,vu1rw;+R:R,vu1ro;+U:UT;D:W,i"


def c20_shards(tier):
    quick = tier == "quick"
    sh = []
    for cap, shared, aa, ma in ((8, 0, "1-", 2), (8, 1, "1-", 2), (6, 0, "1", 6), (6, 1, "1", 6)):
        for lower in (0, 1):
            sh.append(mcx("history-cap%d-sh%d-lc%d" % (cap, shared, lower), prop="C20", table=T_HIST, cap=cap, shared=shared, name_alpha="+SRUD", max_name=3 if quick else 4,
                          args_alpha=aa, max_args=ma, D=1, dev=DEV, lines=0, crlf=1, blank=1, lower=lower, refuse_read=1, refuse_write=1,
                          codes_W="OK,ERROR", codes_R="DATA_OK,OK", codes_U="OK,LIST", codes_T="DATA_OK,LIST", max_inv=1, mon="C20"))
    return sh


def p_c20(tier):
    return {"shards": c20_shards(tier), "require": ["lines_done", "lines_blank", "implicit_hits", "overlong", "list_lines", "wvar_ok", "wvar_err"],
            "technique": "explicit-state model checking to the fixpoint over unboundedly many lines: every line of the family from every reachable quiescent residue, compared with the memoryless reference and the CR rule",
            "bounds": "line family: grammar lines (names <=%d over 5 symbols, args <=2 over {1,-} at cap 8 and <=6 over {1} at cap 6, all four suffixes) with <=1 deviation from 9 bytes, LF and CRLF, blank lines" % (3 if tier == "quick" else 4),
            "assumptions": ["variable values range over what the argument alphabet can write"]}


PLANS["C20"] = p_c20

# ---------------------------------------------------------------- C09 gating

T_GATE = "+A:U;+AB:UW,vu1rw/w;D:W,i|+ABC:UR,vu1rw/r;+O:T,o,vu1rw"


def c09_shards(tier):
    quick = tier == "quick"
    sh = []
    for sm, nm in ((1, "run"), (2, "read"), (4, "write"), (8, "test")):
        sh.append(mcx("gating-%s" % nm, prop="C09", table=T_GATE, cap=8, name_alpha="+ABCDO", max_name=4, args_alpha="1", max_args=1, suffix_mask=sm,
                      D=0, lines=0, lower=0, refuse_read=0, refuse_write=0, codes_W="OK", codes_R="OK,DATA_OK", codes_U="OK,LIST", codes_T="OK", max_inv=1,
                      act="flags", flag_budget=3 if quick else 0, mon="C09"))
    return sh


def p_c09(tier):
    return {"shards": c09_shards(tier), "require": ["lines_done", "flag_flips", "implicit_hits", "ambiguous_lf", "list_lines"],
            "technique": "explicit-state model checking: any history of disable-flag flips at line boundaries (%s) interleaved with every line of the family; reference gating on every line" % ("<=3 flips" if tier == "quick" else "fixpoint: histories of any length, all 128 flag subsets"),
            "bounds": "5 commands in 2 groups with prefix relations, implicit-write and only-test members; names <=4 over 6 symbols; four suffix forms",
            "assumptions": ["flags are flipped only between command lines"]}


PLANS["C09"] = p_c09
