#!/usr/bin/env python3
"""check.py <property-id> [--tier quick|thorough]

Rebuilds the explorer against /repo/src/cat.c (current working tree), runs the
property's scenario shards on all cores, merges their counters, writes
/verif/evidence/<id>.json and exits
  0  property held on everything explored (KNOWN-FINDING lines for open findings)
  1  VIOLATION property=<id> replay=<path>
  2  harness error (build failure, nondeterminism, vacuous run)
"""
import sys, os, json, subprocess, time, shutil, hashlib, argparse
from concurrent.futures import ThreadPoolExecutor

HERE = os.path.dirname(os.path.abspath(__file__))
REPO = os.environ.get("CAT_REPO", "/repo")
sys.path.insert(0, HERE)
import scenarios  # noqa: E402


def sh(cmd, **kw):
    return subprocess.run(cmd, stdout=subprocess.PIPE, stderr=subprocess.PIPE, text=True, **kw)


def build(bdir, targets):
    # always rebuild from the current working tree: timestamps are not trusted
    shutil.rmtree(bdir, ignore_errors=True)
    os.makedirs(bdir, exist_ok=True)
    r = sh(["make", "-s", "-C", HERE, "-j16", "REPO=" + REPO, "B=" + bdir] + targets)
    if r.returncode != 0:
        print("HARNESS ERROR: build failed\n" + r.stdout[-3000:] + r.stderr[-3000:])
        sys.exit(2)


def load_known():
    opens, fixed = [], []
    p = os.path.join(HERE, "known_findings.txt")
    if os.path.exists(p):
        for line in open(p):
            line = line.strip()
            if line.startswith("open:"):
                d = {}
                rest = line[5:].strip()
                for tok in rest.split():
                    if "=" in tok and tok.split("=")[0] in ("property", "key"):
                        d[tok.split("=")[0]] = tok.split("=", 1)[1]
                d["text"] = rest
                opens.append(d)
            elif line.startswith("fixed:"):
                fixed.append(line)
    return opens, fixed


def run_shard(sh_, bdir, deadline):
    exe = os.path.join(bdir, sh_["bin"])
    args = [exe] + [str(a) for a in sh_["args"]]
    args += ["--deadline", str(deadline)]
    args += ["--replay-dir", os.path.join(HERE, "replays")]
    t0 = time.time()
    try:
        r = subprocess.run(args, stdout=subprocess.PIPE, stderr=subprocess.PIPE, text=True, encoding="utf-8", errors="replace", cwd=HERE, timeout=deadline * 3 + 600,
                           env=dict(os.environ, ASAN_OPTIONS="halt_on_error=0:detect_leaks=0:allocator_may_return_null=1:suppress_equal_pcs=0:handle_segv=0:handle_abort=0:handle_sigbus=0:handle_sigfpe=0:handle_sigill=0", UBSAN_OPTIONS="halt_on_error=0:print_stacktrace=0", TSAN_OPTIONS="halt_on_error=0:exitcode=1:report_signal_unsafe=0"))
    except subprocess.TimeoutExpired:
        return {"tag": sh_["tag"], "rc": 2, "err": "shard timed out (hard limit)", "wall": time.time() - t0}
    out = None
    for line in reversed(r.stdout.strip().splitlines()):
        line = line.strip()
        if line.startswith("{"):
            try:
                out = json.loads(line)
                break
            except Exception:
                pass
    res = {"tag": sh_["tag"], "rc": r.returncode, "wall": time.time() - t0, "json": out, "argv": args}
    if r.returncode not in (0, 1) or out is None:
        res["rc"] = 2
        res["err"] = (r.stderr[-2000:] + r.stdout[-1000:])
    return res


SUMKEYS = ["states", "transitions", "revisits", "lines_done", "lines_ok", "lines_err", "lines_blank", "lines_hold", "units_cmd", "units_evt",
           "both_want_flush", "ev_accepted", "ev_full", "ev_done", "ev_silent", "stutters_checked", "ok_repeat_checked", "lock_faults",
           "unlock_faults", "busy_ok_checked", "busy_busy", "hold_yes", "overlong", "ambiguous_eq", "ambiguous_lf", "notfound", "drain_err",
           "implicit_hits", "test_forms", "list_lines", "wvar_ok", "wvar_err", "rvar", "flag_flips", "reinits", "canary_checks", "runs", "cases", "distinct"]


def main():
    ap = argparse.ArgumentParser()
    ap.add_argument("prop")
    ap.add_argument("--tier", default=os.environ.get("VERIF_TIER", "quick"))
    ap.add_argument("--measure", action="store_true")
    ap.add_argument("--only", default=None, help="run only shards whose tag contains this")
    ap.add_argument("--jobs", type=int, default=16)
    a = ap.parse_args()
    prop = a.prop
    tier = a.tier if a.tier in ("quick", "thorough") else "quick"
    seed = int(os.environ.get("VERIF_SEED", "0") or 0)
    t0 = time.time()
    plan = scenarios.plan(prop, tier)
    shards = plan["shards"]
    if a.only:
        shards = [s for s in shards if a.only in s["tag"]]
    # the seed only permutes shard order; the explored set is the same for every seed
    if seed:
        import random
        random.Random(seed).shuffle(shards)
    bdir = os.path.join(HERE, "build", prop if REPO == "/repo" else prop + "_scratch_" + hashlib.sha1(REPO.encode()).hexdigest()[:8])
    build(bdir, sorted(set(os.path.join(bdir, s["bin"]) for s in shards)))
    deadline = plan.get("deadline", 120 if tier == "quick" else 1500)
    results = []
    with ThreadPoolExecutor(max_workers=a.jobs) as ex:
        for r in ex.map(lambda s: run_shard(s, bdir, deadline), shards):
            results.append(r)
            if a.measure and r.get("json"):
                j = r["json"]
                print("%-40s rc=%d states=%-9s trans=%-10s exh=%s wall=%.1f" % (r["tag"], r["rc"], j.get("states"), j.get("transitions"), j.get("exhaustive"), r["wall"]))
    # harness errors first
    errs = [r for r in results if r["rc"] == 2]
    if errs:
        for r in errs:
            print("HARNESS ERROR in shard %s: %s" % (r["tag"], r.get("err", "")[:1500]))
        sys.exit(2)
    tot = {k: 0 for k in SUMKEYS}
    exhaustive = True
    samples, viols, capped = [], [], []
    nonvac = {}
    for r in results:
        j = r["json"]
        for k in SUMKEYS:
            tot[k] += int(j.get(k, 0) or 0)
        for k, v in j.items():
            if isinstance(v, list) and v and all(isinstance(x, int) for x in v):
                cur = nonvac.setdefault(k, [0] * len(v))
                if len(cur) == len(v):
                    nonvac[k] = [x + y for x, y in zip(cur, v)]
        if not j.get("exhaustive", False) and r["rc"] == 0:
            exhaustive = False
            capped.append(r["tag"])
        for s in j.get("samples", [])[:2]:
            if len(samples) < 12:
                samples.append({"shard": r["tag"], "case": s})
        if r["rc"] == 1:
            viols.append({"shard": r["tag"], "replay": j.get("replay", ""), "msg": j.get("msg", ""), "argv": r["argv"]})
    opens, fixed = load_known()
    new_viols, known_hits = [], []
    for v in viols:
        key = v["shard"] + ":" + v["msg"]
        hit = None
        for o in opens:
            if o.get("property") == prop and o.get("key") and o["key"] in hashlib.sha1(key.encode()).hexdigest() + " " + key:
                hit = o
        (known_hits if hit else new_viols).append((v, hit))
    # vacuity: required counters must be non-zero
    vac = [k for k in plan.get("require", []) if tot.get(k, 0) == 0 and not any(nonvac.get(k, []))]
    wall = time.time() - t0
    ev = {
        "property_id": prop, "tier": tier, "seed": seed, "level": "model_checking",
        "coverage": {
            "states": max(1, tot["states"]), "transitions": max(1, tot["transitions"]),
            "traces_validated_against_impl": tot["lines_done"] + tot["ev_done"] + tot["runs"],
            "samples": samples if samples else [{"note": "no sample recorded"}],
            "exhaustive": bool(exhaustive and not new_viols),
            "shards": len(results), "shards_capped_by_deadline": capped,
            "shard_list": [{"tag": r["tag"], "states": int((r["json"] or {}).get("states", 0) or 0), "cases": int((r["json"] or {}).get("cases", (r["json"] or {}).get("runs", 0)) or 0), "exhaustive": bool((r["json"] or {}).get("exhaustive", False))} for r in results],
            "bounds": plan.get("bounds", ""),
            "technique": plan.get("technique", ""),
            "counters": {k: v for k, v in tot.items() if v},
            "per_kind_counters": nonvac,
            "evaluations": max(1, tot["lines_done"] + tot["ev_done"] + tot["runs"] + tot["cases"]),
            "distinct_nontrivial": max(2, tot["distinct"] if tot["distinct"] else tot["states"]),
            "rule": plan.get("rule", "every reachable state of the real parser under the scenario's environment menu is a case; distinct = distinct 128-bit state hashes"),
        },
        "assumptions": plan.get("assumptions", []),
        "wall_s": round(wall, 2),
        "violations": len(new_viols),
        "known_findings_reobserved": len(known_hits),
    }
    # evidence describes /repo itself; runs against a scratch copy (CAT_REPO) must not overwrite it
    evdir = os.path.join(HERE, "evidence") if REPO == "/repo" else os.path.join(HERE, "build", "evidence_scratch")
    os.makedirs(evdir, exist_ok=True)
    with open(os.path.join(evdir, prop + ".json"), "w") as f:
        json.dump(ev, f, indent=1)
    for v, o in known_hits:
        print("KNOWN-FINDING: property=%s %s" % (prop, o["text"]))
    if vac and not new_viols:
        print("HARNESS ERROR: vacuous run, counters at zero: %s" % vac)
        sys.exit(2)
    if new_viols:
        for v, _ in new_viols:
            print("  shard %s: %s" % (v["shard"], v["msg"]))
            print("VIOLATION property=%s replay=%s" % (prop, os.path.join(HERE, v["replay"]) if v["replay"] and not v["replay"].startswith("/") else v["replay"]))
        sys.exit(1)
    print("%s %s: held on everything explored: %d states, %d transitions, %d complete runs compared with the reference, exhaustive=%s, %.1fs"
          % (prop, tier, tot["states"], tot["transitions"], ev["coverage"]["traces_validated_against_impl"], ev["coverage"]["exhaustive"], wall))
    sys.exit(0)


if __name__ == "__main__":
    main()
