/* C05: hex-buffer and string arguments decode exactly and never exceed data_size */
#include "sweep.h"

static int g_nvar, g_pos;
static const char *g_prefix = "AT+B=";

static void build(cat_var_type t, int ds, cat_var_access acc, int nvar, int pos, int handler)
{
        struct wcmd *c = sw_table(1);
        strcpy(c[0].name, "+B");
        c[0].hmask = (handler & 1) ? HM_W : 0;
        c[0].nvar = (uint8_t)nvar;
        for (int i = 0; i < nvar; i++) {
                struct wvar *v = &c[0].var[i];
                memset(v, 0, sizeof *v);
                v->wcb = 1;
                if (i == pos) { v->type = t; v->size = (uint8_t)ds; v->access = acc; if (acc == CAT_VAR_ACCESS_READ_ONLY && (handler & 2)) v->wcb = 0; }
                else { v->type = CAT_VAR_UINT_DEC; v->size = 1; v->access = CAT_VAR_ACCESS_READ_WRITE; }
        }
        g_nvar = nvar; g_pos = pos;
        sw_caps(220, 0);
        W.line_max = 300;
        W.mon = P_ALL;
        world_build();
}

static int run_text(const uint8_t *text, int tlen)
{
        uint8_t line[400];
        int n = 5;
        int n0 = (int)strlen(g_prefix);
        memcpy(line, g_prefix, (size_t)n0); n = n0;
        for (int i = 0; i < g_nvar; i++) {
                if (i) line[n++] = ',';
                if (i == g_pos) { memcpy(line + n, text, (size_t)tlen); n += tlen; }
                else line[n++] = '7';
        }
        line[n++] = '\n';
        SW.cases++;
        int r = sw_line(line, n);
        if (!r && (SW.runs % 30011) == 1) sw_sample(line, n, "buffer");
        return r;
}

static int all_texts(const char *alpha, int na, int maxlen)
{
        uint8_t t[16]; int cnt[16];
        if (run_text(t, 0)) return 1;
        for (int len = 1; len <= maxlen; len++) {
                memset(cnt, 0, sizeof cnt);
                for (;;) {
                        for (int i = 0; i < len; i++) t[i] = (uint8_t)alpha[cnt[i]];
                        if (run_text(t, len)) return 1;
                        int k = len - 1;
                        while (k >= 0 && ++cnt[k] == na) { cnt[k] = 0; k--; }
                        if (k < 0) break;
                }
                if (sw_expired()) return 0;
        }
        return 0;
}

/* k legal units (mix selects plain/escaped per unit) then every possible next byte, with and without a closing quote */
static int g_lite;
static int structured(cat_var_type t, int ds)
{
        uint8_t s[400];
        for (int k = 0; k <= ds + 1; k++) {
                /* lite (quick sanitizer tier): for large buffers only the unit counts around the limits */
                if (g_lite && ds >= 16 && k > 1 && k < ds - 1) continue;
                int nmix = (ds <= 6) ? (1 << k) : 3;
                if (t == CAT_VAR_BUF_HEX) nmix = (k == 0) ? 1 : 2;       /* digit case */
                for (int mi = 0; mi < nmix; mi++) {
                        /* mode 0 no unit escaped, 1 all, 2 only the last, 3 per-unit bitmask */
                        int mode; unsigned mix = 0;
                        if (t == CAT_VAR_BUF_HEX) mode = mi ? 1 : 0;
                        else if (ds <= 6) { mode = 3; mix = (unsigned)mi; }
                        else mode = mi;
                        int n = 0;
                        if (t == CAT_VAR_BUF_STRING) s[n++] = '"';
                        for (int u = 0; u < k; u++) {
                                int esc = mode == 0 ? 0 : mode == 1 ? 1 : mode == 2 ? (u == k - 1) : (int)((mix >> u) & 1);
                                if (t == CAT_VAR_BUF_HEX) { s[n++] = esc ? 'a' : 'A'; s[n++] = (uint8_t)('0' + (u % 10)); }
                                else if (esc) { s[n++] = '\\'; s[n++] = (uint8_t)("n\"\\"[u % 3]); }
                                else s[n++] = (uint8_t)('a' + (u % 20));
                        }
                        /* the bare prefix, then prefix + closing quote */
                        if (run_text(s, n)) return 1;
                        if (t == CAT_VAR_BUF_STRING) { s[n] = '"'; if (run_text(s, n + 1)) return 1; }
                        for (int b = 1; b < 256; b++) {
                                s[n] = (uint8_t)b;
                                if (run_text(s, n + 1)) return 1;
                                if (t == CAT_VAR_BUF_STRING) {
                                        s[n + 1] = '"';
                                        if (run_text(s, n + 2)) return 1;
                                        if (b == '\\') {
                                                /* every escape character, closed */
                                                for (int e = 1; e < 256; e++) { s[n + 1] = (uint8_t)e; s[n + 2] = '"'; if (run_text(s, n + 3)) return 1; }
                                        }
                                } else {
                                        for (int b2 = 0; b2 < 4; b2++) { s[n + 1] = (uint8_t)"0fG,"[b2]; if (run_text(s, n + 2)) return 1; }
                                }
                        }
                        if (sw_expired()) return 0;
                }
        }
        return 0;
}

/* The working buffer doubles as the 2-bit-per-command match table while the name is typed.  An empty
 * argument text must still be an empty text: every pattern of exact / prefix / non-matching commands in
 * the first eight table slots (12 commands), first variable of every type. */
static int family_residue(void)
{
        int idx = 0;
        static const cat_var_type VT[5] = {CAT_VAR_BUF_HEX, CAT_VAR_BUF_STRING, CAT_VAR_UINT_DEC, CAT_VAR_INT_DEC, CAT_VAR_NUM_HEX};
        /* every slot of the first eight: no match (0), proper prefix match (1) or a duplicate of the typed name (2, full match) */
        for (int code = 0; code < 6561; code++, idx++) {
                        int st[8], any_full = 0, x = code;
                        for (int i = 0; i < 8; i++) { st[i] = x % 3; x /= 3; if (st[i] == 2) any_full = 1; }
                        if (!any_full) continue;
                        if (idx % SW.nshards != SW.shard) continue;
                        int exact = 0, mask = code;
                        for (int vg = 0; vg < 10; vg++) {
                                int vt = vg % 5, capg = vg / 5 ? 6 : 16;
                                struct wcmd *c = sw_table(12);
                                int pn = 0;
                                for (int i = 0; i < 12; i++) {
                                        if (i < 8 && st[i] == 2) strcpy(c[i].name, (i & 1) ? "+p" : "+P");
                                        else if (i < 8 && st[i] == 1) snprintf(c[i].name, sizeof c[i].name, "+P%c", 'A' + pn++);
                                        else snprintf(c[i].name, sizeof c[i].name, "Z%c", 'A' + i);
                                        c[i].hmask = HM_W;
                                        c[i].nvar = 1;
                                        c[i].var[0] = (struct wvar){.type = VT[vt], .size = (uint8_t)(vt == 1 ? 16 : 4), .access = CAT_VAR_ACCESS_READ_WRITE, .wcb = 1};
                                }
                                sw_caps(capg, ((code & 1) ^ (capg == 6)) ? ((code & 2) ? 2 : 1) : 0);
                                W.line_max = 40; W.mon = P_ALL;
                                world_build();
                                snprintf(SW.extra, sizeof SW.extra, "family=residue exact-slot=%d prefix-mask=0x%02x first-variable-type=%d", exact, mask, vt);
                                static const uint8_t l1[] = "AT+P=\n", l2[] = "AT+P=\r\n";
                                SW.cases += 2;
                                if (sw_line(l1, 6) || sw_line(l2, 7)) return 1;
                        }
                }
        return 0;
}

/* Argument texts whose length is exactly the capacity of the command buffer, one less, one and two more, for every line
 * ending and CR placement: a valid text of capacity-1 bytes is accepted whatever ends the line (CR is never stored). */
static int family_capfit(void)
{
        int idx = 0;
        static const int CAPS[] = {6, 7, 8, 9, 16, 17, 33};
        for (int ti = 0; ti < 4; ti++)           /* 0 hex buffer, 1 string, 2 string with escapes, 3 two variables (hex , string) */
        for (int ci = 0; ci < 7; ci++)
        for (int layout = 0; layout < 3; layout++, idx++) {
                if (idx % SW.nshards != SW.shard) continue;
                int cap = CAPS[ci];
                struct wcmd *c = sw_table(1);
                strcpy(c[0].name, "+B");
                c[0].hmask = (idx & 1) ? HM_W : 0;
                c[0].nvar = (uint8_t)(ti == 3 ? 2 : 1);
                for (int i = 0; i < c[0].nvar; i++) {
                        struct wvar *v = &c[0].var[i];
                        memset(v, 0, sizeof *v);
                        v->wcb = 1; v->size = 40; v->access = CAT_VAR_ACCESS_READ_WRITE;
                        v->type = (ti == 0 || (ti == 3 && i == 0)) ? CAT_VAR_BUF_HEX : CAT_VAR_BUF_STRING;
                }
                sw_caps(cap, layout);
                W.line_max = 120; W.mon = P_ALL;
                world_build();
                snprintf(SW.extra, sizeof SW.extra, "family=capfit kind=%d cap=%d layout=%d", ti, cap, layout);
                for (int len = cap - 3; len <= cap + 2; len++) {
                        if (len < 2) continue;
                        uint8_t t[80]; int n = 0;
                        /* a syntactically valid text of exactly len bytes (when the kind allows that length) */
                        if (ti == 0) { if (len & 1) continue; for (int i = 0; i < len; i++) t[n++] = (uint8_t)"A1b2"[i & 3]; }
                        else if (ti == 1) { t[n++] = '"'; for (int i = 0; i < len - 2; i++) t[n++] = (uint8_t)('a' + i % 26); t[n++] = '"'; }
                        else if (ti == 2) { if (len < 4) continue; t[n++] = '"'; t[n++] = '\\'; t[n++] = 'n'; for (int i = 0; i < len - 4; i++) t[n++] = 'x'; t[n++] = '"'; }
                        else { if (len < 5) continue; t[n++] = 'A'; t[n++] = '1'; t[n++] = ','; t[n++] = '"'; for (int i = 0; i < len - 5; i++) t[n++] = 'q'; t[n++] = '"'; }
                        if (n != len) mcx_fatal("capfit text length");
                        /* endings: LF, CR LF, CR CR LF; CR at every inner position with LF / CR LF */
                        for (int e = 0; e < 3; e++) {
                                uint8_t line[120]; int k = 0;
                                memcpy(line, "AT+B=", 5); k = 5;
                                memcpy(line + k, t, (size_t)n); k += n;
                                for (int r = 0; r < e; r++) line[k++] = '\r';
                                line[k++] = '\n';
                                SW.cases++;
                                if (sw_line(line, k)) return 1;
                        }
                        for (int cp = 0; cp <= n; cp++)
                                for (int e = 0; e < 2; e++) {
                                        uint8_t line[120]; int k = 0;
                                        memcpy(line, "AT+B=", 5); k = 5;
                                        memcpy(line + k, t, (size_t)cp); k += cp;
                                        line[k++] = '\r';
                                        memcpy(line + k, t + cp, (size_t)(n - cp)); k += n - cp;
                                        if (e) line[k++] = '\r';
                                        line[k++] = '\n';
                                        SW.cases++;
                                        if (sw_line(line, k)) return 1;
                                }
                }
        }
        return 0;
}

int main(int argc, char **argv)
{
        sw_init(argc, argv, "buffers");
        if (!strcmp(sw_args(argc, argv, "--family", "texts"), "capfit")) { family_capfit(); char tg[64]; snprintf(tg, sizeof tg, "buffers-capfit-%d", SW.shard); return sw_finish(tg); }
        if (!strcmp(sw_args(argc, argv, "--family", "texts"), "residue")) { family_residue(); char tg[64]; snprintf(tg, sizeof tg, "buffers-residue-%d", SW.shard); return sw_finish(tg); }
        int lite = sw_argi(argc, argv, "--lite", 0);
        g_lite = lite;
        static const int DS[] = {1, 2, 3, 4, 5, 6, 7, 8, 16, 63, 64};
        int idx = 0;
        for (int ti = 0; ti < 2; ti++) {
                cat_var_type t = ti ? CAT_VAR_BUF_STRING : CAT_VAR_BUF_HEX;
                for (int di = 0; di < 11; di++)
                        for (int acc = 0; acc < 3; acc++)
                                for (int pos = 0; pos < 3; pos++, idx++) {
                                        if (idx % SW.nshards != SW.shard) continue;
                                        int ds = DS[di];
                                        if (!SW.tier && pos == 1 && ds > 4) continue;
                                        if (lite && !(ds <= 3 || ds == 8 || ds >= 63)) continue;
                                        if (lite && pos == 1) continue;
                                        if (sw_expired()) goto out;
                                        build(t, ds, (cat_var_access)acc, 3, pos, (idx & 1) | ((ds & 1) ? 2 : 0));    /* bit 1: a read-only variable under test has no write callback */
                                        snprintf(SW.extra, sizeof SW.extra, "type=%s data_size=%d access=%d pos=%d", ti ? "string" : "hexbuf", ds, acc, pos);
                                        if (structured(t, ds)) goto out;
                                        if (ds <= 3 && pos == 0) {
                                                int ml = 2 * ds + 3;
                                                if (ti == 0) { if (all_texts("0aFg", 4, ml > 8 ? 8 : ml)) goto out; }
                                                else { static const char A[] = {'"', '\\', 'n', 'a', ',', (char)0x80}; if (all_texts(A, 6, SW.tier ? (ml > 8 ? 8 : ml) : (ml > 6 ? 6 : ml))) goto out; }
                                                /* NUL and '?' inside the argument text (a NUL ends the text the variable parser sees; '?' is only special as the whole text) */
                                                if (ds == 1) {
                                                        static const char B[] = {0, '?', '"', 'a', 'A', '1'};
                                                        if (all_texts(B, 6, 4)) goto out;
                                                        /* the same as the only argument of a one-variable command (the text reaches the end of the line) */
                                                        build(t, ds, (cat_var_access)acc, 1, 0, (idx & 1));
                                                        snprintf(SW.extra, sizeof SW.extra, "type=%s data_size=%d access=%d single variable, texts with NUL and '?'", ti ? "string" : "hexbuf", ds, acc);
                                                        if (all_texts(B, 6, 4)) goto out;
                                                        /* the same variable behind an implicit-write command: the text starts right after the name, '=' is an ordinary byte */
                                                        {
                                                                static const char C[] = {'=', '"', 'A', '1', 'a'};
                                                                build(t, ds, (cat_var_access)acc, 1, 0, (idx & 1));
                                                                strcpy(W.cmd[0].name, "D"); W.cmd[0].implicit = 1; W.cmd[0].hmask = HM_W;
                                                                world_build();
                                                                g_prefix = "ATD";
                                                                snprintf(SW.extra, sizeof SW.extra, "type=%s data_size=%d access=%d implicit-write command", ti ? "string" : "hexbuf", ds, acc);
                                                                int bad = all_texts(C, 5, 5);
                                                                g_prefix = "AT+B=";
                                                                if (bad) goto out;
                                                        }
                                                }
                                        }
                                }
        }
out:;
        char tag[64];
        snprintf(tag, sizeof tag, "buffers-%d", SW.shard);
        return sw_finish(tag);
}
