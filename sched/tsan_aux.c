/* C17 auxiliary (NOT the deciding check): the thread bodies of sched/threads.c
 * free-running under ThreadSanitizer with a plain pthread mutex behind the
 * library's mutex interface.  A cooperative scheduler's hand-offs are
 * happens-before edges that blind a race detector, so this separate pass keeps
 * unsynchronised accesses visible to TSan itself.  It samples schedules; a TSan
 * report is turned into a violation, silence proves nothing. */
#define _GNU_SOURCE
#include "cat.h"
#include <pthread.h>
#include <sched.h>
#include <stdio.h>
#include <stdlib.h>
#include <string.h>
#include <time.h>

static struct cat_object at;
static pthread_mutex_t mtx = PTHREAD_MUTEX_INITIALIZER;
static int mx_lock(void) { return pthread_mutex_lock(&mtx); }
static int mx_unlock(void) { return pthread_mutex_unlock(&mtx); }
static struct cat_mutex_interface mx = {.lock = mx_lock, .unlock = mx_unlock};

static const char *in_p; static int in_pos, in_n;
static char out[8192]; static int out_n;
static int wr_attempts;
static unsigned rnd_state;
static unsigned rnd(void) { rnd_state = rnd_state * 1103515245u + 12345u; return rnd_state >> 16; }

static int io_read(char *ch) { if (in_pos >= in_n) return 0; *ch = in_p[in_pos++]; return 1; }
static int io_write(char ch) { if ((++wr_attempts % 3) == 0) return 0; if (out_n < (int)sizeof out) out[out_n++] = ch; return 1; }
static struct cat_io_interface io = {.write = io_write, .read = io_read};

static int delivered[4], accepted[4];
static struct cat_command cmds[8];
static struct cat_variable evars[4];
static uint32_t vars[4];
static volatile int stop_service;

static cat_return_state ev_cb(const struct cat_command *cmd, uint8_t *d, size_t *n, const size_t m) { (void)d; (void)n; (void)m; delivered[(cmd - cmds) - 2]++; return CAT_RETURN_STATE_DATA_OK; }
static cat_return_state hold_run(const struct cat_command *cmd) { (void)cmd; return CAT_RETURN_STATE_HOLD; }
static cat_return_state plain_run(const struct cat_command *cmd) { (void)cmd; return CAT_RETURN_STATE_OK; }

static void *service(void *a)
{
        (void)a;
        int quiet = 0, last_out = -1, last_del = -1;
        for (long it = 0; it < 5000000; it++) {
                cat_status s = cat_service(&at);
                int del = delivered[0] + delivered[1] + delivered[2] + delivered[3];
                /* progress = output or deliveries; an unreleased hold answers BUSY forever, so "quiet for a long time" ends the run */
                if (out_n != last_out || del != last_del) { quiet = 0; last_out = out_n; last_del = del; } else quiet++;
                if (__atomic_load_n(&stop_service, __ATOMIC_ACQUIRE) && (s == CAT_STATUS_OK || quiet > 5000)) break;
                if ((rnd() & 7) == 0) sched_yield();
        }
        return NULL;
}

static void *producer(void *a)
{
        int id = (int)(long)a;
        for (int k = 0; k < 6; k++) {
                cat_status s;
                switch ((id + k) % 6) {
                case 0: s = cat_trigger_unsolicited_read(&at, &cmds[2 + id]); if (s == CAT_STATUS_OK) accepted[id]++; break;
                case 1: s = cat_trigger_unsolicited_test(&at, &cmds[2 + id]); if (s == CAT_STATUS_OK) accepted[id]++; break;
                case 2: s = cat_trigger_unsolicited_event(&at, &cmds[2 + id], CAT_CMD_TYPE_READ); if (s == CAT_STATUS_OK) accepted[id]++; break;
                case 3: cat_is_unsolicited_buffer_full(&at); break;
                case 4: cat_is_busy(&at); cat_is_hold(&at); break;
                default: cat_hold_exit(&at, CAT_STATUS_OK); break;
                }
                if ((k & 1) == 0) sched_yield();
        }
        return NULL;
}

static volatile int tsan_reports;
void __tsan_on_report(void *rep) { (void)rep; tsan_reports++; }

int main(int argc, char **argv)
{
        int iters = 200, nprod = 3;
        const char *replay_dir = "replays", *prop = "C17";
        for (int i = 1; i + 1 < argc; i += 2) {
                if (!strcmp(argv[i], "--iters")) iters = atoi(argv[i + 1]);
                else if (!strcmp(argv[i], "--producers")) nprod = atoi(argv[i + 1]);
                else if (!strcmp(argv[i], "--replay-dir")) replay_dir = argv[i + 1];
                else if (!strcmp(argv[i], "--prop")) prop = argv[i + 1];
        }
        struct timespec t0; clock_gettime(CLOCK_MONOTONIC, &t0);
        static struct cat_command_group grp; static struct cat_command_group *grps[1]; static struct cat_descriptor desc; static uint8_t buf[96];
        int mismatches = 0;
        for (int r = 0; r < iters; r++) {
                rnd_state = (unsigned)r * 2654435761u + 1;
                memset(&at, 0, sizeof at); memset(delivered, 0, sizeof delivered); memset(accepted, 0, sizeof accepted);
                in_p = "ATH\nATP\n"; in_pos = 0; in_n = 8; out_n = 0; wr_attempts = 0; stop_service = 0;
                cmds[0] = (struct cat_command){.name = "H", .run = hold_run};
                cmds[1] = (struct cat_command){.name = "P", .run = plain_run};
                for (int p = 0; p < nprod; p++) {
                        static const char *nm[] = {"+u1", "+u2", "+u3", "+u4"};
                        vars[p] = (uint32_t)(10 + p);
                        evars[p] = (struct cat_variable){.type = CAT_VAR_UINT_DEC, .data = &vars[p], .data_size = 4, .access = CAT_VAR_ACCESS_READ_ONLY};
                        cmds[2 + p] = (struct cat_command){.name = nm[p], .read = ev_cb, .test = ev_cb, .var = &evars[p], .var_num = 1};
                }
                grp = (struct cat_command_group){.cmd = cmds, .cmd_num = 2}; grps[0] = &grp;
                desc = (struct cat_descriptor){.cmd_group = grps, .cmd_group_num = 1, .buf = buf, .buf_size = sizeof buf};
                cat_init(&at, &desc, &io, &mx);
                pthread_t st, pt[4];
                pthread_create(&st, NULL, service, NULL);
                for (int p = 0; p < nprod; p++) pthread_create(&pt[p], NULL, producer, (void *)(long)p);
                for (int p = 0; p < nprod; p++) pthread_join(pt[p], NULL);
                __atomic_store_n(&stop_service, 1, __ATOMIC_RELEASE);
                pthread_join(st, NULL);
                for (int p = 0; p < nprod; p++) if (delivered[p] != accepted[p]) mismatches++;
        }
        struct timespec t1; clock_gettime(CLOCK_MONOTONIC, &t1);
        int bad = tsan_reports != 0;     /* delivery mismatches are only reported: exactly-once is decided by the exhaustive pass */
        char path[512] = "";
        if (bad) {
                snprintf(path, sizeof path, "%s/%s_tsanaux_r%d_p%d.replay", replay_dir, prop, (int)CAT_UNSOLICITED_CMD_BUFFER_SIZE, nprod);
                FILE *f = fopen(path, "w");
                if (f) { fprintf(f, "# C17 auxiliary free-running ThreadSanitizer pass (sampling): re-run build/<dir>/tsanaux_r%d --iters %d --producers %d\nprop %s\nmsg %d ThreadSanitizer reports, %d delivery mismatches\n", (int)CAT_UNSOLICITED_CMD_BUFFER_SIZE, iters, nprod, prop, tsan_reports, mismatches); fclose(f); }
        }
        printf("{\"tag\":\"tsanaux-r%d-p%d\",\"states\":1,\"transitions\":%d,\"runs\":%d,\"cases\":%d,\"distinct\":1,\"exhaustive\":%s,\"capped\":0,\"wall_s\":%.3f,\"violations\":%d,"
               "\"samples\":[\"auxiliary free-running TSan pass: %d iterations, %d producers, %d TSan reports, %d delivery mismatches (sampling, not the deciding check)\"]",
               (int)CAT_UNSOLICITED_CMD_BUFFER_SIZE, nprod, iters, iters, iters, bad ? "false" : "true", (t1.tv_sec - t0.tv_sec) + (t1.tv_nsec - t0.tv_nsec) * 1e-9, bad ? 1 : 0, iters, nprod, tsan_reports, mismatches);
        if (bad) printf(",\"replay\":\"%s\",\"msg\":\"C17 (auxiliary TSan pass): %d ThreadSanitizer data-race reports, %d delivery mismatches in %d free-running iterations\"", path, tsan_reports, mismatches, iters);
        printf("}\n");
        fflush(stdout);
        return bad ? 1 : 0;
}
