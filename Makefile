# builds the explorer against /repo/src/cat.c from the current working tree
REPO ?= /repo
CC ?= gcc
CFLAGS = -O2 -g -Wall -Wextra -Wno-unused-parameter -Wno-format-truncation -I$(REPO)/src -Iengine
ENGINE = engine/mcx.c engine/world.c engine/gen.c engine/fifo.c engine/ref.c engine/mon.c
HDRS = engine/mcx.h engine/world.h engine/wint.h
RINGS = 1 2 3 8

all: $(foreach r,$(RINGS),build/mcx_r$(r))

build/mcx_r%: $(ENGINE) engine/mcxmain.c $(HDRS) $(REPO)/src/cat.c $(REPO)/src/cat.h
	@mkdir -p build
	$(CC) $(CFLAGS) -DCAT_UNSOLICITED_CMD_BUFFER_SIZE=$* $(ENGINE) engine/mcxmain.c $(REPO)/src/cat.c -o $@

clean:
	rm -rf build
