/* mcx - explicit-state explorer over real code.
 *
 * The state of the system under test is a list of registered memory regions
 * (the real cat_object, its buffers, variable storage, the harness monitor).
 * A transition is one "action" (an API call made by the scenario) plus the
 * answers given at every choice point (mcx_choose) hit inside it.  The explorer
 * enumerates, for every reachable state, every action and every vector of
 * answers (odometer), and deduplicates successor states by a 128-bit hash of
 * the regions.
 */
#ifndef MCX_H
#define MCX_H
#include <stdint.h>
#include <stddef.h>
#include <stdio.h>

#define MCX_MAX_CHOICES 48

typedef struct { uint64_t a, b; } mcx_hash_t;

/* ---- state regions ---- */
void   mcx_region(void *p, size_t n, const char *name);
void   mcx_region_reset(void);
size_t mcx_state_size(void);
void   mcx_save(uint8_t *dst);
void   mcx_restore(const uint8_t *src);
mcx_hash_t mcx_hash_state(void);
mcx_hash_t mcx_hash_bytes(const void *p, size_t n, uint64_t seed);

/* ---- choice points ---- */
int  mcx_choose(int n);                 /* returns 0..n-1; n>=1 */
/* scripted mode: answers come from a fixed vector, then defaults (0) */
struct mcx_choices { int len; int pos; uint8_t val[MCX_MAX_CHOICES]; uint8_t arity[MCX_MAX_CHOICES]; };
void mcx_choices_begin(struct mcx_choices *c);   /* start a transition replaying c->val[0..len) */
void mcx_choices_end(void);
int  mcx_choices_next(struct mcx_choices *c);    /* advance odometer; 0 when exhausted */
extern int (*mcx_default_choice)(int n);          /* policy for choices past the prefix; NULL => 0 */

/* ---- violations ---- */
/* Recorded by monitors during a transition; the first one wins. */
void mcx_violation(const char *prop, const char *fmt, ...) __attribute__((format(printf, 2, 3)));
int  mcx_violated(void);
const char *mcx_violation_prop(void);
const char *mcx_violation_msg(void);
void mcx_violation_clear(void);
/* harness error: abort the whole run with exit code 2 */
void mcx_fatal(const char *fmt, ...) __attribute__((format(printf, 1, 2), noreturn));

/* ---- model interface ---- */
struct mcx_model {
        void (*init)(void);                      /* put the regions in the initial state */
        int  (*n_actions)(void);                 /* number of actions enabled in current state */
        int  (*step)(int action);                /* perform it; return 0 = continue, 1 = do not expand successor */
        void (*describe)(int action, char *out, size_t n); /* text for replay file */
        void (*describe_result)(char *out, size_t n);     /* optional: what the last step did */
        /* optional: called once per newly discovered state (after step) */
        void (*on_new_state)(void);
        /* optional: called for every completed transition with pre/post hashes */
        void (*on_transition)(int action, const struct mcx_choices *c, mcx_hash_t pre, mcx_hash_t post);
};

struct mcx_stats {
        uint64_t states, transitions, max_depth, revisits, pruned;
        int exhaustive;      /* 1 if the search ended because the frontier was empty */
        int capped;          /* reason: 0 none, 1 state cap, 2 deadline, 3 depth cap */
        double wall_s;
};

struct mcx_opts {
        uint64_t max_states;     /* 0 = unlimited */
        double   deadline_s;     /* 0 = none (wall seconds for this explore call) */
        uint32_t max_depth;      /* 0 = default 200000 */
        int      stop_at_first;  /* stop at first violation (default 1) */
        const char *replay_dir;  /* where replay files go */
        const char *tag;         /* scenario tag for replay file names */
        const char *header;      /* extra header lines (config) for replay file */
};

/* returns number of violations found (0 or 1 with stop_at_first) */
int mcx_explore(const struct mcx_model *m, const struct mcx_opts *o, struct mcx_stats *st);

/* path of the last violation (valid after mcx_explore returned >0) */
const char *mcx_last_replay_path(void);

/* replay a path file: returns 0 if no violation, 1 if violation reproduced, 2 on divergence */
int mcx_replay_file(const struct mcx_model *m, const char *path, int verbose);

/* stateless helper: enumerate all choice vectors of one action from the
 * current state; calls step for each; the state is restored before every run.
 * returns number of runs. */
uint64_t mcx_forall_choices(const struct mcx_model *m, int action, int (*after)(void *ctx), void *ctx);

/* visited-set access for scenario-level bookkeeping (ids are dense 0..states-1) */
int64_t mcx_state_id(mcx_hash_t h);      /* -1 if unknown */
uint64_t mcx_num_states(void);

double mcx_now(void);
extern int mcx_verbose;
extern const char *mcx_crash_prop;
extern int mcx_skip_confirm;   /* set by the model when a violation comes from a run-time checker that reports each site only once */
#endif
