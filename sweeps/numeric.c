/* C04: numeric arguments are stored iff well-formed and in range, with exact value.
 * The argument text is the search space; the verdict comes from the reference
 * model's decision on the text (arbitrary-precision comparison). */
#include "sweep.h"

static const cat_var_type TYPES[3] = {CAT_VAR_INT_DEC, CAT_VAR_UINT_DEC, CAT_VAR_NUM_HEX};
static const char TCH[3] = {'i', 'u', 'x'};

static void setvar(struct wvar *v, cat_var_type t, int size, cat_var_access a)
{
        memset(v, 0, sizeof *v);
        v->type = t; v->size = (uint8_t)size; v->access = a; v->wcb = 1;
}

/* one command "+N" with nvar variables, the one under test at position pos */
static void build(cat_var_type t, int size, cat_var_access acc, int nvar, int pos, int need_all, int handler, int cap)
{
        struct wcmd *c = sw_table(1);
        strcpy(c[0].name, "+N");
        c[0].hmask = handler ? HM_W : 0;
        c[0].need_all = (uint8_t)need_all;
        c[0].nvar = (uint8_t)nvar;
        for (int i = 0; i < nvar; i++) {
                if (i == pos) setvar(&c[0].var[i], t, size, acc);
                else setvar(&c[0].var[i], i % 2 ? CAT_VAR_NUM_HEX : CAT_VAR_UINT_DEC, 1, CAT_VAR_ACCESS_READ_WRITE);
        }
        sw_caps(cap, 0);
        W.line_max = cap + 40;
        W.mon = P_ALL;
        world_build();
}

static int run_text(const char *text, int tlen, int nvar, int pos, int extra_tail)
{
        uint8_t line[400];
        int n = 0;
        memcpy(line, "AT+N=", 5); n = 5;
        for (int i = 0; i < nvar; i++) {
                if (i) line[n++] = ',';
                if (i == pos) { memcpy(line + n, text, (size_t)tlen); n += tlen; }
                else if (i % 2) { memcpy(line + n, "0x1", 3); n += 3; }
                else line[n++] = '7';
                if (i == pos && !extra_tail && 0) break;
        }
        line[n++] = '\n';
        SW.cases++;
        int r = sw_line(line, n);
        if (!r && (SW.runs % 50021) == 1) sw_sample(line, n, "numeric");
        return r;
}

/* ---------------- family A: all short texts ---------------- */
static const char ALPHA[] = "+-01259xXaF, \"";

static int family_all(int maxlen, int shard, int nshards)
{
        int idx = 0;
        for (int ti = 0; ti < 3; ti++)
                for (int sz = 1; sz <= 4; sz <<= 1) {
                        for (int first = 0; first < 14; first++, idx++) {
                                if (idx % nshards != shard) continue;
                                build(TYPES[ti], sz, CAT_VAR_ACCESS_READ_WRITE, 1, 0, 0, 1, 16);
                                snprintf(SW.extra, sizeof SW.extra, "family=all-short-texts type=%c size=%d", TCH[ti], sz);
                                char t[16];
                                int cnt[16];
                                for (int len = 1; len <= maxlen; len++) {
                                        memset(cnt, 0, sizeof cnt);
                                        cnt[0] = first;
                                        for (;;) {
                                                for (int i = 0; i < len; i++) t[i] = ALPHA[cnt[i]];
                                                if (run_text(t, len, 1, 0, 0)) return 1;
                                                int k = len - 1;
                                                while (k >= 1 && ++cnt[k] == 14) { cnt[k] = 0; k--; }
                                                if (k < 1) break;
                                        }
                                        if (sw_expired()) return 0;
                                }
                                if (first == 0 && run_text("", 0, 1, 0, 0)) return 1;   /* empty field */
                        }
                }
        return 0;
}

/* ---------------- family B: boundary and wrap-around values ---------------- */
typedef unsigned __int128 u128;

static int u128_dec(u128 v, char *out)
{
        char tmp[64]; int n = 0;
        if (v == 0) tmp[n++] = '0';
        while (v) { tmp[n++] = (char)('0' + (int)(v % 10)); v /= 10; }
        for (int i = 0; i < n; i++) out[i] = tmp[n - 1 - i];
        return n;
}
static int u128_hex(u128 v, char *out, int upper)
{
        char tmp[64]; int n = 0;
        if (v == 0) tmp[n++] = '0';
        while (v) { int d = (int)(v & 15); tmp[n++] = (char)(d < 10 ? '0' + d : (upper ? 'A' : 'a') + d - 10); v >>= 4; }
        for (int i = 0; i < n; i++) out[i] = tmp[n - 1 - i];
        return n;
}

static u128 VALS[900];
static int nvals;

static void make_values(void)
{
        nvals = 0;
        u128 p10_19 = 1; for (int i = 0; i < 19; i++) p10_19 *= 10;
        u128 B[10] = {(u128)1 << 7, (u128)1 << 8, (u128)1 << 15, (u128)1 << 16, (u128)1 << 31, (u128)1 << 32, (u128)1 << 63, (u128)1 << 64, p10_19, p10_19 * 10};
        for (int b = 0; b < 10; b++)
                for (int d = -3; d <= 3; d++) VALS[nvals++] = B[b] + (u128)(long long)d;
        static const unsigned R[9] = {0, 1, 5, 127, 128, 255, 256, 65535, 65536};
        for (int q = 1; q <= 16; q++)
                for (int r = 0; r < 9; r++) VALS[nvals++] = ((u128)q << 64) + R[r];
        for (int r = 0; r < 9; r++) VALS[nvals++] = R[r];
        /* a boundary value followed by more digits: (B+d)*10^k + e (a parser that stops accumulating at a boundary drops them) */
        {
                u128 BB[7] = {(u128)1 << 7, (u128)1 << 8, (u128)1 << 15, (u128)1 << 16, (u128)1 << 31, (u128)1 << 32, (u128)1 << 63};
                for (int b = 0; b < 7; b++)
                        for (int d = -1; d <= 1; d++)
                                for (int k = 1; k <= 5; k += 2) {
                                        u128 v = BB[b] + (u128)(long long)d;
                                        for (int i = 0; i < k; i++) v *= 10;
                                        VALS[nvals++] = v; VALS[nvals++] = v + 9;
                                }
        }
        /* 2^64 multiples shifted by 2^32 (32-bit wrap) */
        for (int q = 1; q <= 4; q++) { VALS[nvals++] = ((u128)q << 32) + 5; VALS[nvals++] = ((u128)q << 16) + 5; VALS[nvals++] = ((u128)q << 8) + 5; }
}

static int family_bounds(int shard, int nshards)
{
        make_values();
        static const int SIZES[5] = {1, 2, 4, 3, 8};
        static const int ZEROS[6] = {0, 1, 2, 5, 20, 30};
        int idx = 0;
        for (int ti = 0; ti < 3; ti++)
        for (int si = 0; si < 5; si++)
        for (int acc = 0; acc < 3; acc++)
        for (int pos = 0; pos < 3; pos++)
        for (int na = 0; na < 2; na++)
        for (int hd = 0; hd < 2; hd++, idx++) {
                if (idx % nshards != shard) continue;
                int sz = SIZES[si];
                if (acc == CAT_VAR_ACCESS_READ_ONLY && (sz == 3 || sz == 8)) continue;   /* outside the statement */
                if (sw_expired()) return 0;
                build(TYPES[ti], sz, (cat_var_access)acc, 3, pos, na, hd, 96);
                snprintf(SW.extra, sizeof SW.extra, "family=bounds type=%c size=%d access=%d pos=%d need_all=%d handler=%d", TCH[ti], sz, acc, pos, na, hd);
                char t[160];
                for (int vi = 0; vi < nvals; vi++) {
                        /* read-only: magnitudes that do not fit 64 bits are unspecified for a variable that is never stored */
                        if (acc == CAT_VAR_ACCESS_READ_ONLY && (VALS[vi] >> 63)) continue;
                        for (int zi = 0; zi < 6; zi++) {
                                if (TYPES[ti] == CAT_VAR_NUM_HEX) {
                                        for (int up = 0; up < 2; up++)
                                                for (int X = 0; X < 2; X++) {
                                                        int n = 0;
                                                        t[n++] = '0'; t[n++] = X ? 'X' : 'x';
                                                        for (int z = 0; z < ZEROS[zi]; z++) t[n++] = '0';
                                                        n += u128_hex(VALS[vi], t + n, up);
                                                        if (run_text(t, n, 3, pos, 0)) return 1;
                                                }
                                } else {
                                        for (int sg = 0; sg < 3; sg++) {
                                                int n = 0;
                                                if (sg == 1) t[n++] = '+'; else if (sg == 2) t[n++] = '-';
                                                for (int z = 0; z < ZEROS[zi]; z++) t[n++] = '0';
                                                n += u128_dec(VALS[vi], t + n);
                                                if (run_text(t, n, 3, pos, 0)) return 1;
                                        }
                                }
                        }
                }
                /* family C: every digit count */
                for (int di = 0; di < 4; di++) {
                        char d = "019F"[di];
                        if (TYPES[ti] != CAT_VAR_NUM_HEX && d == 'F') continue;
                        for (int n = 1; n <= 80; n++) {
                                int k = 0;
                                if (TYPES[ti] == CAT_VAR_NUM_HEX) { t[k++] = '0'; t[k++] = 'x'; }
                                for (int i = 0; i < n; i++) t[k++] = d;
                                if (acc == CAT_VAR_ACCESS_READ_ONLY && d != '0' && n > (TYPES[ti] == CAT_VAR_NUM_HEX ? 15 : 18)) continue;
                                if (run_text(t, k, 3, pos, 0)) return 1;
                        }
                }
        }
        return 0;
}

/* argument texts that fill the command buffer exactly (capacity-1 bytes), one less and one more, ending in a value, in an
 * empty last argument (trailing comma) or in a sign / prefix only: what lies behind the terminator is never looked at */
static int family_capfit(int shard, int nshards)
{
        static const char *TAILS[3][6] = {{"", "5", "-", "-5", "+", "05"}, {"", "5", "0", "05", "+", "55"}, {"", "0", "0x", "0x5", "0x05", "x"}};
        int idx = 0;
        for (int ti = 0; ti < 3; ti++)
                for (int cap = 6; cap <= 18; cap += (cap < 10 ? 1 : 4))
                        for (int layout = 0; layout < 3; layout++, idx++) {
                                if (idx % nshards != shard) continue;
                                struct wcmd *c = sw_table(1);
                                strcpy(c[0].name, "+N");
                                c[0].hmask = HM_W; c[0].nvar = 2;
                                setvar(&c[0].var[0], CAT_VAR_UINT_DEC, 4, CAT_VAR_ACCESS_READ_WRITE);
                                setvar(&c[0].var[1], TYPES[ti], 1, CAT_VAR_ACCESS_READ_WRITE);
                                sw_caps(cap, layout);
                                W.line_max = 60; W.mon = P_ALL;
                                world_build();
                                snprintf(SW.extra, sizeof SW.extra, "family=capfit type=%c cap=%d layout=%d", TCH[ti], cap, layout);
                                for (int k = 0; k < 6; k++)
                                        for (int total = cap - 2; total <= cap; total++) {
                                                const char *tail = TAILS[ti][k];
                                                int tl = (int)strlen(tail), zeros = total - 1 - tl;      /* <zeros x '0'> , <tail> */
                                                if (zeros < 1) continue;
                                                uint8_t line[64]; int n = 0;
                                                memcpy(line, "AT+N=", 5); n = 5;
                                                for (int i = 0; i < zeros - 1; i++) line[n++] = '0';
                                                line[n++] = '7'; line[n++] = ',';
                                                memcpy(line + n, tail, (size_t)tl); n += tl;
                                                line[n++] = '\n';
                                                SW.cases++;
                                                if (sw_line(line, n)) return 1;
                                        }
                        }
        return 0;
}

/* every byte value at every position of short digit strings (control bytes, high bytes, punctuation next to digits) */
static int family_bytes(int shard, int nshards)
{
        static const char *TPL[3][7] = {
                {"?", "1?", "?1", "-?", "-1?", "1?2", "12?"},
                {"?", "1?", "?1", "2?5", "25?", "?55", "1?2"},
                {"?x1", "0?1", "0x?", "0x1?", "0x?1", "0xA?b", "0x1f?"}};
        int idx = 0;
        for (int ti = 0; ti < 3; ti++)
                for (int sz = 1; sz <= 4; sz <<= 1)
                        for (int pos = 0; pos < 2; pos++, idx++) {
                                if (idx % nshards != shard) continue;
                                build(TYPES[ti], sz, CAT_VAR_ACCESS_READ_WRITE, 2, pos, 0, idx & 1, 24);
                                snprintf(SW.extra, sizeof SW.extra, "family=bytes type=%c size=%d pos=%d", TCH[ti], sz, pos);
                                for (int k = 0; k < 7; k++)
                                        for (int b = 1; b < 256; b++) {
                                                if (b == '\n') continue;
                                                char t[16]; int n = 0;
                                                for (const char *p = TPL[ti][k]; *p; p++) t[n++] = (*p == '?') ? (char)b : *p;
                                                if (run_text(t, n, 2, pos, 0)) return 1;
                                        }
                        }
        return 0;
}

/* implicit-write command with variables: the argument text is everything after the name, '=' included */
static const char ALPHA_I[] = "=+-0159xXaF, ?";
static int family_implicit(int maxlen, int shard, int nshards)
{
        int idx = 0;
        for (int ti = 0; ti < 3; ti++)
                for (int nv = 1; nv <= 2; nv++)
                        for (int first = 0; first < 14; first++, idx++) {
                                if (idx % nshards != shard) continue;
                                struct wcmd *c = sw_table(2);
                                strcpy(c[0].name, "N");
                                c[0].hmask = (idx & 1) ? HM_W : 0; c[0].implicit = 1; c[0].nvar = (uint8_t)nv;
                                for (int i = 0; i < nv; i++) setvar(&c[0].var[i], i == 0 ? TYPES[ti] : CAT_VAR_UINT_DEC, i == 0 ? 1 : 2, CAT_VAR_ACCESS_READ_WRITE);
                                strcpy(c[1].name, "NX"); c[1].hmask = HM_U | HM_W;      /* a command whose name extends the implicit one */
                                sw_caps(16, idx % 3);
                                W.line_max = 60; W.mon = P_ALL;
                                world_build();
                                snprintf(SW.extra, sizeof SW.extra, "family=implicit type=%c nvar=%d", TCH[ti], nv);
                                char t[16]; int cnt[16];
                                for (int len = 1; len <= maxlen; len++) {
                                        memset(cnt, 0, sizeof cnt);
                                        cnt[0] = first;
                                        for (;;) {
                                                uint8_t line[40]; int n = 0;
                                                line[n++] = 'A'; line[n++] = 'T'; line[n++] = 'N';
                                                for (int i = 0; i < len; i++) { t[i] = ALPHA_I[cnt[i]]; line[n++] = (uint8_t)t[i]; }
                                                line[n++] = '\n';
                                                SW.cases++;
                                                if (sw_line(line, n)) return 1;
                                                int k = len - 1;
                                                while (k >= 1 && ++cnt[k] == 14) { cnt[k] = 0; k--; }
                                                if (k < 1) break;
                                        }
                                        if (sw_expired()) return 0;
                                }
                        }
        return 0;
}

/* digit counts around 2^8 and 2^16 (and their multiples): well-formed, in-range values with that many digits */
static int family_huge(int shard, int nshards)
{
        static const int COUNTS[] = {254, 255, 256, 257, 511, 512, 513, 65534, 65535, 65536, 65537, 131072};
        int idx = 0;
        static uint8_t line[140000];
        for (int ti = 0; ti < 3; ti++)
                for (int ci = 0; ci < 12; ci++)
                        for (int pos = 0; pos < 2; pos++, idx++) {
                                if (idx % nshards != shard) continue;
                                int n = COUNTS[ci];
                                struct wcmd *c = sw_table(1);
                                strcpy(c[0].name, "+N");
                                c[0].hmask = HM_W; c[0].nvar = 2;
                                for (int i = 0; i < 2; i++) setvar(&c[0].var[i], i == pos ? TYPES[ti] : CAT_VAR_UINT_DEC, i == pos ? 2 : 1, CAT_VAR_ACCESS_READ_WRITE);
                                sw_caps(n + 64, 0);
                                W.line_max = n + 128;
                                W.mon = P_ALL;
                                world_build();
                                snprintf(SW.extra, sizeof SW.extra, "family=huge type=%c digits=%d pos=%d", TCH[ti], n, pos);
                                for (int lastd = 0; lastd < 2; lastd++) {
                                        int k = 0;
                                        memcpy(line, "AT+N=", 5); k = 5;
                                        if (pos == 1) { line[k++] = '7'; line[k++] = ','; }
                                        if (TYPES[ti] == CAT_VAR_NUM_HEX) { line[k++] = '0'; line[k++] = 'x'; }
                                        else if (TYPES[ti] == CAT_VAR_INT_DEC && lastd) line[k++] = '-';
                                        for (int i = 0; i < n - 1; i++) line[k++] = '0';
                                        line[k++] = lastd ? '9' : '0';
                                        if (pos == 0) { line[k++] = ','; line[k++] = '7'; }
                                        line[k++] = '\n';
                                        SW.cases++;
                                        if (sw_line(line, k)) return 1;
                                }
                                if (sw_expired()) return 0;
                        }
        return 0;
}

int main(int argc, char **argv)
{
        sw_init(argc, argv, "numeric");
        const char *fam = sw_args(argc, argv, "--family", "all");
        int maxlen = sw_argi(argc, argv, "--maxlen", 4);
        int r;
        if (!strcmp(fam, "huge")) r = family_huge(SW.shard, SW.nshards);
        else if (!strcmp(fam, "capfit")) r = family_capfit(SW.shard, SW.nshards);
        else if (!strcmp(fam, "bytes")) r = family_bytes(SW.shard, SW.nshards);
        else if (!strcmp(fam, "implicit")) r = family_implicit(maxlen, SW.shard, SW.nshards);
        else if (!strcmp(fam, "all")) r = family_all(maxlen, SW.shard, SW.nshards);
        else r = family_bounds(SW.shard, SW.nshards);
        (void)r;
        char tag[64];
        snprintf(tag, sizeof tag, "numeric-%s-%d", fam, SW.shard);
        return sw_finish(tag);
}
