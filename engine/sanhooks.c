/* sanitizer report hooks: turn any ASan / UBSan report into a flag the monitor reads */
#include "world.h"
void __asan_on_error(void) { w_san_error = 1; }
void __ubsan_on_report(void) { w_san_error = 1; }
