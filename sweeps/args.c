/* C06: handlers see exactly the sent arguments; over-long lines are rejected, not cut */
#include "sweep.h"

static int kind;   /* 0 plain write, 1 implicit write, 2 variables + write handler */

static void build(int k, int cap, int shared)
{
        struct wcmd *c = sw_table(2);
        kind = k;
        if (k == 0) { strcpy(c[0].name, "+W"); c[0].hmask = HM_W; }
        else if (k == 1) { strcpy(c[0].name, "D"); c[0].hmask = HM_W; c[0].implicit = 1; }
        else {
                strcpy(c[0].name, "+V"); c[0].hmask = HM_W; c[0].nvar = 2;
                c[0].var[0] = (struct wvar){.type = CAT_VAR_BUF_STRING, .size = 64, .access = CAT_VAR_ACCESS_READ_WRITE};
                c[0].var[1] = (struct wvar){.type = CAT_VAR_UINT_DEC, .size = 1, .access = CAT_VAR_ACCESS_READ_WRITE};
        }
        strcpy(c[1].name, "+Z"); c[1].hmask = HM_U;
        sw_caps(cap, shared);
        W.line_max = 3 * cap + 40;
        W.mon = P_ALL;
        world_build();
}

static int run_args(const uint8_t *a, int n)
{
        uint8_t line[400];
        int k = 0;
        const char *pre = kind == 0 ? "AT+W=" : kind == 1 ? "ATD" : "AT+V=";
        memcpy(line, pre, strlen(pre)); k = (int)strlen(pre);
        memcpy(line + k, a, (size_t)n); k += n;
        line[k++] = '\n';
        /* a second line shows that parsing resumes cleanly */
        memcpy(line + k, "AT+Z\n", 5); k += 5;
        SW.cases++;
        int r = sw_line(line, k);
        if (!r && (SW.runs % 40009) == 1) sw_sample(line, k, "args");
        return r;
}

/* long runs of NEXT / DATA_NEXT from one handler (invocation counters narrower than int): every one re-invokes, the last code decides */
static int family_nextrun(void)
{
        static const int RUNS[] = {254, 255, 256, 257, 65534, 65535, 65536, 65537, 70000};
        int idx = 0;
        for (int hk = 0; hk < 4; hk++)            /* write, read, run, test */
                for (int code = 0; code < 2; code++)
                        for (int ri = 0; ri < 9; ri++)
                                for (int last = 0; last < 2; last++, idx++) {
                                        if (idx % SW.nshards != SW.shard) continue;
                                        struct wcmd *c = sw_table(2);
                                        strcpy(c[0].name, "+X"); c[0].hmask = HM_W | HM_R | HM_U | HM_T;
                                        strcpy(c[1].name, "+Z"); c[1].hmask = HM_U;
                                        sw_caps(24, idx % 3);
                                        W.line_max = 60; W.mon = P_ALL;
                                        W.max_inv = RUNS[ri]; W.tok_mode = 1;
                                        static const int HKS[4] = {HK_W, HK_R, HK_U, HK_T};
                                        int8_t menu[2] = {(int8_t)(code ? CAT_RETURN_STATE_DATA_NEXT : CAT_RETURN_STATE_NEXT), (int8_t)(last ? CAT_RETURN_STATE_ERROR : CAT_RETURN_STATE_OK)};
                                        for (int k = 0; k < 4; k++) { memcpy(W.codes[k], menu, 2); W.ncodes[k] = 2; }
                                        world_build();
                                        snprintf(SW.extra, sizeof SW.extra, "family=nextrun handler=%d code=%s run=%d last=%s", HKS[hk], code ? "DATA_NEXT" : "NEXT", RUNS[ri], last ? "ERROR" : "OK");
                                        static const char *LN[4] = {"AT+X=1\nAT+Z\n", "AT+X?\nAT+Z\n", "AT+X\nAT+Z\n", "AT+X=?\nAT+Z\n"};
                                        SW.cases++;
                                        if (sw_line((const uint8_t *)LN[hk], (int)strlen(LN[hk]))) return 1;
                                        if (sw_expired()) return 0;
                                }
        W.max_inv = 2; W.tok_mode = 0;
        return 0;
}

/* argument texts around 2^16 and 2^17 bytes in a command buffer that holds them (length counters narrower than size_t) */
static int family_huge(void)
{
        static const int LENS[] = {65533, 65534, 65535, 65536, 65537, 65541, 131071, 131072, 131073};
        static uint8_t line[270000];
        int idx = 0;
        for (int k = 0; k < 3; k++)
                for (int capi = 0; capi < 2; capi++)
                        for (int li = 0; li < 9; li++, idx++) {
                                if (idx % SW.nshards != SW.shard) continue;
                                int cap = capi ? 131080 : 65540, L = LENS[li];
                                struct wcmd *c = sw_table(2);
                                kind = k;
                                if (k == 0) { strcpy(c[0].name, "+W"); c[0].hmask = HM_W; }
                                else if (k == 1) { strcpy(c[0].name, "D"); c[0].hmask = HM_W; c[0].implicit = 1; }
                                else {
                                        /* junk that is no string, then a valid string: rejected unless the collector lost the junk */
                                        strcpy(c[0].name, "+V"); c[0].hmask = HM_W; c[0].nvar = 1;
                                        c[0].var[0] = (struct wvar){.type = (L & 1) ? CAT_VAR_BUF_STRING : CAT_VAR_BUF_HEX, .size = 8, .access = CAT_VAR_ACCESS_READ_WRITE, .wcb = 1};
                                }
                                strcpy(c[1].name, "+Z"); c[1].hmask = HM_U;
                                sw_caps(cap, 0);
                                W.line_max = 2 * 131080 + 100;
                                W.mon = P_ALL & ~(unsigned)(P_C12 | P_C15);       /* no whole-state hashing per call on 128 KiB buffers */
                                world_build();
                                snprintf(SW.extra, sizeof SW.extra, "family=huge kind=%d cap=%d argument-bytes=%d", k, cap, L);
                                const char *pre = k == 0 ? "AT+W=" : k == 1 ? "ATD" : "AT+V=";
                                int n = (int)strlen(pre);
                                memcpy(line, pre, (size_t)n);
                                for (int i = 0; i < L; i++) line[n++] = (uint8_t)(k == 2 ? 'G' : 'a' + i % 23);
                                if (k == 2) { const char *tail = (L & 1) ? "\"hi\"" : "0A0B"; memcpy(line + n, tail, 4); n += 4; }
                                line[n++] = '\n';
                                memcpy(line + n, "AT+Z\n", 5); n += 5;
                                SW.cases++;
                                if (sw_line(line, n)) return 1;
                                if (sw_expired()) return 0;
                        }
        return 0;
}

int main(int argc, char **argv)
{
        sw_init(argc, argv, "args");
        if (!strcmp(sw_args(argc, argv, "--family", "pos"), "nextrun")) { family_nextrun(); char tg[64]; snprintf(tg, sizeof tg, "args-nextrun-%d", SW.shard); return sw_finish(tg); }
        if (!strcmp(sw_args(argc, argv, "--family", "pos"), "huge")) { family_huge(); char tg[64]; snprintf(tg, sizeof tg, "args-huge-%d", SW.shard); return sw_finish(tg); }
        int lite = sw_argi(argc, argv, "--lite", 0);
        static const int CAPS[] = {6, 7, 8, 16, 24, 32};
        int ncaps = SW.tier ? 6 : 4;
        int idx = 0;
        uint8_t a[400];
        for (int k = 0; k < 3; k++)
                for (int ci = 0; ci < ncaps; ci++)
                        for (int shared = 0; shared < 3; shared++, idx++) {
                                if (idx % SW.nshards != SW.shard) continue;
                                int cap = CAPS[ci];
                                if (lite && cap == 16) continue;
                                build(k, cap, shared);
                                snprintf(SW.extra, sizeof SW.extra, "kind=%d cap=%d shared=%d", k, cap, shared);
                                /* a CR followed by what looks like a new command, at every position of argument texts up to 3 x capacity */
                                for (int L = 0; L <= 3 * cap; L++)
                                        for (int v = 0; v < 3; v++) {
                                                static const char *EMB[3] = {"\rAT+Z", "\rat+z", "\r\rAT+Z"};
                                                int n = 0;
                                                for (int i = 0; i < L; i++) a[n++] = 'x';
                                                for (const char *q = EMB[v]; *q; q++) a[n++] = (uint8_t)*q;
                                                if (n < (int)sizeof a && run_args(a, n)) goto out;
                                        }
                                /* positional sweep: every byte value at every position of every length */
                                for (int L = 0; L <= 3 * cap; L++) {
                                        for (int fill = 0; fill < 2; fill++) {
                                                for (int i = 0; i < L; i++) a[i] = (uint8_t)(((i + fill) & 1) ? 'a' : 'A');
                                                if (k == 2) { /* make the base text parse: "aAa...",<digit> is not needed; errors are fine too */ }
                                                if (run_args(a, L)) goto out;
                                                for (int p = 0; p < L; p++) {
                                                        uint8_t keep = a[p];
                                                        for (int b = 0; b < 256; b++) {
                                                                if (b == '\n') continue;
                                                                if (b == 0 && k == 2) continue;      /* NUL inside a variable text: outside C04/C05 alphabets */
                                                                a[p] = (uint8_t)b;
                                                                if (run_args(a, L)) goto out;
                                                        }
                                                        a[p] = keep;
                                                }
                                        }
                                        if (sw_expired()) goto out;
                                }
                                /* all strings over {a, A, CR, NUL} up to cap+1 */
                                if (cap <= 7) {
                                        static const uint8_t AL[4] = {'a', 'A', '\r', 0};
                                        int na = (k == 2) ? 3 : 4;
                                        int cnt[16];
                                        for (int len = 1; len <= cap + 1; len++) {
                                                memset(cnt, 0, sizeof cnt);
                                                for (;;) {
                                                        for (int i = 0; i < len; i++) a[i] = AL[cnt[i]];
                                                        if (run_args(a, len)) goto out;
                                                        int q = len - 1;
                                                        while (q >= 0 && ++cnt[q] == na) { cnt[q] = 0; q--; }
                                                        if (q < 0) break;
                                                }
                                        }
                                }
                                /* well-formed variable texts of every length around the capacity (kind 2) */
                                if (k == 2) {
                                        for (int L = 0; L <= cap + 2; L++) {
                                                int n = 0;
                                                a[n++] = '"';
                                                for (int i = 0; i < L; i++) a[n++] = 'q';
                                                a[n++] = '"';
                                                if (run_args(a, n)) goto out;
                                                a[n++] = ','; a[n++] = '5';
                                                if (run_args(a, n)) goto out;
                                        }
                                }
                        }
out:;
        char tag[64];
        snprintf(tag, sizeof tag, "args-%d", SW.shard);
        return sw_finish(tag);
}
