/* C07: READ output fed back as WRITE arguments restores every variable value */
#include "sweep.h"

static int nv;
static struct wvar vdef[W_MAXVAR];

static int g_need_all;
static void build(int n, const struct wvar *vars, int cap)
{
        struct wcmd *c = sw_table(1);
        strcpy(c[0].name, "+R");
        c[0].nvar = (uint8_t)n;
        c[0].need_all = (uint8_t)g_need_all;
        for (int i = 0; i < n; i++) c[0].var[i] = vars[i];
        nv = n; memcpy(vdef, vars, sizeof(struct wvar) * (size_t)n);
        sw_caps(cap, 0);
        W.line_max = cap + 40;
        W.mon = P_ALL;
        world_build();
}

static char setvars[1024];

/* values[i] points at data_size bytes for variable i; returns 1 on violation */
static int roundtrip(uint8_t *const *values, int expect_fit)
{
        world_init();
        size_t o = 0;
        setvars[0] = 0;
        for (int i = 0; i < nv; i++) {
                w_set_var(0, i, values[i]);
                char hx[200];
                sw_hex(hx, sizeof hx, values[i], vdef[i].size);
                o += (size_t)snprintf(setvars + o, sizeof setvars - o, "%s0:%d:%s", i ? "," : "", i, hx);
        }
        static const uint8_t rd[] = "AT+R?\n";
        SW.cases++;
        if (sw_feed(rd, 6, setvars)) return 1;
        const char *out = w_output();
        int on = w_output_len();
        /* "\n+R=<payload>\n\nOK\n" */
        if (on < 5 || memcmp(out, "\n+R=", 4) != 0) {
                if (!expect_fit) return 0;       /* did not fit: the reference already agreed that ERROR is right */
                if (on == 7 && !memcmp(out, "\nERROR\n", 7)) return 0;
                mcx_violation(SW.prop, "C07: READ produced no payload");
                sw_violation(rd, 6, setvars);
                return 1;
        }
        uint8_t line[700];
        int n = 0;
        memcpy(line, "AT+R=", 5); n = 5;
        int e = 4;
        while (e < on && out[e] != '\n') e++;
        memcpy(line + n, out + 4, (size_t)(e - 4)); n += e - 4;
        line[n++] = '\n';
        /* scramble, then write the payload back */
        for (int i = 0; i < nv; i++) {
                uint8_t junk[64];
                if (vdef[i].access == CAT_VAR_ACCESS_READ_ONLY) continue;      /* never written back: keeps its value */
                for (int k = 0; k < vdef[i].size; k++) junk[k] = (uint8_t)(values[i][k] ^ 0x5a);
                if (vdef[i].type == CAT_VAR_BUF_STRING) { for (int k = 0; k < vdef[i].size; k++) junk[k] = (uint8_t)('z' - (k & 7)); junk[vdef[i].size - 1] = 0; }
                w_set_var(0, i, junk);
        }
        w_output_reset();
        if (sw_feed(line, n, NULL)) return 1;
        int ok = (w_output_len() == 4 && !memcmp(w_output(), "\nOK\n", 4));
        int same = 1;
        for (int i = 0; i < nv; i++) {
                if (vdef[i].type == CAT_VAR_BUF_STRING) {
                        if (strncmp((const char *)w_vardata(0, i), (const char *)values[i], vdef[i].size) != 0) same = 0;
                } else if (memcmp(w_vardata(0, i), values[i], vdef[i].size) != 0) same = 0;
        }
        if (!ok || !same) {
                char esc[300];
                w_esc(esc, sizeof esc, line, n);
                mcx_violation(SW.prop, "C07: READ payload fed back as '%s' %s", esc, ok ? "was accepted but did not restore the value" : "was not accepted");
                snprintf(SW.extra, sizeof SW.extra, "round trip with initial values %s", setvars);
                sw_violation(line, n, setvars);
                return 1;
        }
        if ((SW.runs % 100003) == 3) sw_sample(line, n, "roundtrip write-back");
        return 0;
}

static struct wvar mkvar(cat_var_type t, int size)
{
        struct wvar v;
        memset(&v, 0, sizeof v);
        v.type = t; v.size = (uint8_t)size; v.access = CAT_VAR_ACCESS_READ_WRITE;
        return v;
}

static const uint16_t EDGE16[] = {0, 1, 2, 9, 10, 99, 100, 127, 128, 255, 256, 999, 1000, 9999, 10000, 32767, 32768, 32769, 65534, 65535,
                                  0x7ffe, 0x8001, 0x00ff, 0xff00, 0x0f0f, 0xf0f0, 0x1234, 0xfedc, 0x4000, 0xc000, 42, 4242, 0xaaaa, 0x5555, 0x0100, 0x0a0a, 0x2710, 0x03e8, 0xfffe, 0x8000};

/* ---------- numeric sweeps through the full harness ---------- */
static int numeric(int shard, int nshards, int thorough)
{
        static const cat_var_type T[3] = {CAT_VAR_INT_DEC, CAT_VAR_UINT_DEC, CAT_VAR_NUM_HEX};
        int idx = 0;
        for (int ti = 0; ti < 3; ti++) {
                for (int sz = 1; sz <= 2; sz++) {
                        struct wvar v = mkvar(T[ti], sz);
                        build(1, &v, 32);
                        uint32_t lim = sz == 1 ? 256 : 65536;
                        for (uint32_t x = 0; x < lim; x++, idx++) {
                                if ((idx >> 8) % nshards != shard) continue;
                                uint8_t b[4]; memcpy(b, &x, 4);
                                uint8_t *vals[1] = {b};
                                if (roundtrip(vals, 1)) return 1;
                        }
                }
                struct wvar v = mkvar(T[ti], 4);
                build(1, &v, 32);
                int ne = (int)(sizeof EDGE16 / sizeof EDGE16[0]);
                int nh = thorough ? ne : 10;
                for (int h = 0; h < nh; h++) {
                        /* hi16 from the edge set with every lo16, and every hi16 with lo16 from the edge set */
                        for (uint32_t lo = 0; lo < 65536; lo++, idx++) {
                                if ((idx >> 10) % nshards != shard) continue;
                                uint32_t x1 = ((uint32_t)EDGE16[h * (ne / nh)] << 16) | lo, x2 = (lo << 16) | EDGE16[h * (ne / nh)];
                                uint8_t b[4]; uint8_t *vals[1] = {b};
                                memcpy(b, &x1, 4); if (roundtrip(vals, 1)) return 1;
                                memcpy(b, &x2, 4); if (roundtrip(vals, 1)) return 1;
                        }
                        if (sw_expired()) return 0;
                }
        }
        return 0;
}

/* ---------- byte buffers and strings ---------- */
static int buffers(int shard, int nshards)
{
        int idx = 0;
        uint8_t b[64];
        uint8_t *vals[1] = {b};
        /* all contents for data_size <= 2 */
        for (int ds = 1; ds <= 2; ds++) {
                struct wvar v = mkvar(CAT_VAR_BUF_HEX, ds);
                build(1, &v, 200);
                for (uint32_t x = 0; x < (ds == 1 ? 256u : 65536u); x++, idx++) {
                        if ((idx >> 8) % nshards != shard) continue;
                        b[0] = (uint8_t)x; b[1] = (uint8_t)(x >> 8);
                        if (roundtrip(vals, 1)) return 1;
                }
        }
        /* every byte value at every position, data_size up to 64 */
        static const int DS[] = {3, 4, 7, 8, 16, 31, 63, 64};
        for (int di = 0; di < 8; di++) {
                struct wvar v = mkvar(CAT_VAR_BUF_HEX, DS[di]);
                build(1, &v, 200);
                for (int p = 0; p < DS[di]; p++, idx++) {
                        if (idx % nshards != shard) continue;
                        for (int x = 0; x < 256; x++) {
                                for (int i = 0; i < DS[di]; i++) b[i] = (uint8_t)(0x11 * (i % 15));
                                b[p] = (uint8_t)x;
                                if (roundtrip(vals, 1)) return 1;
                        }
                }
        }
        /* strings: all strings over a 9-symbol alphabet, length < data_size <= 5 */
        static const uint8_t SA[10] = {'a', '"', '\\', '\n', ',', ' ', 0x01, 0x7f, 0x80, 0xff};
        for (int ds = 1; ds <= 5; ds++) {
                struct wvar v = mkvar(CAT_VAR_BUF_STRING, ds);
                build(1, &v, 64);
                for (int len = 0; len < ds; len++) {
                        int cnt[8] = {0};
                        for (;;) {
                                idx++;
                                if ((idx >> 6) % nshards == shard) {
                                        memset(b, 0, sizeof b);
                                        for (int i = 0; i < len; i++) b[i] = SA[cnt[i]];
                                        if (roundtrip(vals, 1)) return 1;
                                }
                                int q = len - 1;
                                while (q >= 0 && ++cnt[q] == 10) { cnt[q] = 0; q--; }
                                if (q < 0) break;
                        }
                }
        }
        /* runs of one byte (1..6 times, alone and inside a text) and all ordered pairs of bytes: sequences that mean something to terminals */
        {
                struct wvar v = mkvar(CAT_VAR_BUF_STRING, 12);
                build(1, &v, 64);
                for (int x = 1; x < 256; x++, idx++) {
                        if (idx % nshards != shard || x == '\r') continue;
                        for (int k = 1; k <= 6; k++)
                                for (int ctx = 0; ctx < 2; ctx++) {
                                        memset(b, 0, sizeof b);
                                        int n = 0;
                                        if (ctx) b[n++] = 'a';
                                        for (int i = 0; i < k; i++) b[n++] = (uint8_t)x;
                                        if (ctx) { b[n++] = '4'; b[n++] = '8'; }
                                        if (roundtrip(vals, 1)) return 1;
                                }
                        for (int y = 1; y < 256; y++) {
                                if (y == '\r') continue;
                                memset(b, 0, sizeof b);
                                b[0] = (uint8_t)x; b[1] = (uint8_t)y; b[2] = (uint8_t)x;
                                if (roundtrip(vals, 1)) return 1;
                        }
                }
        }
        /* every non-CR, non-NUL byte at every position, data_size up to 64, full length */
        static const int SS[] = {2, 8, 33, 64};
        for (int di = 0; di < 4; di++) {
                struct wvar v = mkvar(CAT_VAR_BUF_STRING, SS[di]);
                build(1, &v, 200);
                for (int p = 0; p + 1 < SS[di]; p++, idx++) {
                        if (idx % nshards != shard) continue;
                        for (int x = 1; x < 256; x++) {
                                if (x == '\r') continue;
                                memset(b, 0, sizeof b);
                                for (int i = 0; i + 1 < SS[di]; i++) b[i] = (uint8_t)('b' + (i % 20));
                                b[p] = (uint8_t)x;
                                if (roundtrip(vals, 1)) return 1;
                        }
                }
                if (sw_expired()) return 0;
        }
        return 0;
}

/* ---------- mixes: all ordered triples of variable types, capacity down to the exact fit ---------- */
static int mixes(int shard, int nshards)
{
        static const cat_var_type T[5] = {CAT_VAR_INT_DEC, CAT_VAR_UINT_DEC, CAT_VAR_NUM_HEX, CAT_VAR_BUF_HEX, CAT_VAR_BUF_STRING};
        static const int SZ[5] = {4, 2, 1, 3, 6};
        static const uint8_t VAL[5][3][8] = {
                {{0, 0, 0, 0x80}, {0xff, 0xff, 0xff, 0x7f}, {0xff, 0xff, 0xff, 0xff}},
                {{0, 0}, {0xff, 0xff}, {0x39, 0x30}},
                {{0}, {0xff}, {0x0a}},
                {{0, 0, 0}, {0xff, 0x80, 0x7f}, {0x12, 0xab, 0xcd}},
                {{'C', ':', '\\', 0}, {'"', '\\', '\n', ',', 'x', 0}, {'a', ',', ' ', '\\', 0}}};
        int idx = 0;
        for (int a = 0; a < 5; a++) for (int b = 0; b < 5; b++) for (int c = 0; c < 5; c++, idx++) {
                if (idx % nshards != shard) continue;
                int ty[3] = {a, b, c};
                for (int combo = 0; combo < 27 * 4; combo++) {
                        /* access pattern: all read-write, or one of the three positions read-only */
                        struct wvar vars[3] = {mkvar(T[a], SZ[a]), mkvar(T[b], SZ[b]), mkvar(T[c], SZ[c])};
                        int ro = combo / 27 - 1;
                        if (ro >= 0) vars[ro].access = CAT_VAR_ACCESS_READ_ONLY;
                        /* need_all_vars on every second combination; two trailing read-only variables on some */
                        g_need_all = (combo ^ idx) & 1;
                        if (ro == 2 && (combo & 2)) vars[1].access = CAT_VAR_ACCESS_READ_ONLY;
                        uint8_t vb[3][8];
                        uint8_t *vals[3] = {vb[0], vb[1], vb[2]};
                        int k = combo % 27;
                        for (int i = 0; i < 3; i++) { memcpy(vb[i], VAL[ty[i]][k % 3], 8); k /= 3; }
                        /* generous capacity first, to learn the text length */
                        build(3, vars, 120);
                        if (roundtrip(vals, 1)) return 1;
                        /* the response is "+R=" payload: find the smallest capacity that holds it, then exact fit and one short */
                        world_init();
                        for (int i = 0; i < 3; i++) w_set_var(0, i, vals[i]);
                        static const uint8_t rd[] = "AT+R?\n";
                        w_feed = NULL;
                        if (sw_feed(rd, 6, NULL)) return 1;
                        int on = w_output_len(), e = 1;
                        while (e < on && w_output()[e] != '\n') e++;
                        int textlen = e - 1;                  /* "+R=payload" */
                        int need = textlen + 1;
                        int wline = 5 + (textlen - 3);        /* args of the write-back line */
                        for (int cap = need - 1; cap <= need + 1; cap++) {
                                if (cap < 6) continue;
                                build(3, vars, cap);
                                (void)wline;
                                if (roundtrip(vals, cap >= need)) return 1;
                        }
                }
                if (sw_expired()) return 0;
        }
        return 0;
}

/* ---------- lean full 2^32 sweep (thorough): the bare library, no monitors ---------- */
static const char *lf_in; static int lf_n, lf_pos; static char lf_out[128]; static int lf_on;
static int lf_read(char *c) { if (lf_pos >= lf_n) return 0; *c = lf_in[lf_pos++]; return 1; }
static int lf_write(char c) { if (lf_on < (int)sizeof lf_out) lf_out[lf_on++] = c; return 1; }

static int lean32(int shard, int nshards, cat_var_type type, uint32_t stride_limit)
{
        static uint32_t value;
        static struct cat_variable var;
        static struct cat_command cmd;
        static struct cat_command_group grp;
        static struct cat_command_group *grps[1];
        static uint8_t buf[64];
        static struct cat_descriptor desc;
        static struct cat_io_interface io = {.write = lf_write, .read = lf_read};
        struct cat_object at;
        var = (struct cat_variable){.type = type, .data = &value, .data_size = 4, .access = CAT_VAR_ACCESS_READ_WRITE};
        cmd = (struct cat_command){.name = "+R", .var = &var, .var_num = 1};
        grp = (struct cat_command_group){.cmd = &cmd, .cmd_num = 1};
        grps[0] = &grp;
        desc = (struct cat_descriptor){.cmd_group = grps, .cmd_group_num = 1, .buf = buf, .buf_size = sizeof buf};
        memset(&at, 0, sizeof at);
        cat_init(&at, &desc, &io, NULL);
        uint64_t chunk = (1ULL << 32) / (uint64_t)nshards;
        uint64_t lo = chunk * (uint64_t)shard, hi = (shard == nshards - 1) ? (1ULL << 32) : lo + chunk;
        if (stride_limit && hi - lo > stride_limit) hi = lo + stride_limit;
        char line[64];
        for (uint64_t x = lo; x < hi; x++) {
                value = (uint32_t)x;
                lf_in = "AT+R?\n"; lf_n = 6; lf_pos = 0; lf_on = 0;
                while (cat_service(&at) != 0) {}
                /* "\n+R=payload\n\nOK\n" */
                int e = 4;
                while (e < lf_on && lf_out[e] != '\n') e++;
                int n = 5;
                memcpy(line, "AT+R=", 5);
                memcpy(line + n, lf_out + 4, (size_t)(e - 4)); n += e - 4;
                line[n++] = '\n';
                value = ~(uint32_t)x;
                lf_in = line; lf_n = n; lf_pos = 0; lf_on = 0;
                while (cat_service(&at) != 0) {}
                SW.calls += 120; SW.runs += 2; SW.cases++;
                if (value != (uint32_t)x || lf_on != 4 || memcmp(lf_out, "\nOK\n", 4) != 0) {
                        mcx_violation(SW.prop, "C07: 32-bit value 0x%08x (type %d) printed as '%.*s' does not round-trip (got 0x%08x, answer '%.*s')", (uint32_t)x, type, n - 6, line + 5, value,
                                      lf_on > 8 ? 8 : lf_on, lf_out);
                        /* express as a replay through the full harness */
                        struct wvar v = mkvar(type, 4);
                        build(1, &v, 64);
                        uint32_t xx = (uint32_t)x; char hx[16]; sw_hex(hx, sizeof hx, (uint8_t *)&xx, 4);
                        snprintf(setvars, sizeof setvars, "0:0:%s", hx);
                        char msg[900]; snprintf(msg, sizeof msg, "%s", mcx_violation_msg());
                        sw_violation((const uint8_t *)line, n, setvars);
                        snprintf(SW.msg, sizeof SW.msg, "%s", msg);
                        return 1;
                }
                if ((x & 0xfffff) == 0 && sw_expired()) return 0;
        }
        sw_set_insert(lo ^ 0xabcdef);
        return 0;
}

int main(int argc, char **argv)
{
        sw_init(argc, argv, "roundtrip");
        const char *fam = sw_args(argc, argv, "--family", "numeric");
        if (!strcmp(fam, "numeric")) numeric(SW.shard, SW.nshards, SW.tier);
        else if (!strcmp(fam, "buffers")) buffers(SW.shard, SW.nshards);
        else if (!strcmp(fam, "mixes")) mixes(SW.shard, SW.nshards);
        else if (!strcmp(fam, "lean32")) {
                int t = sw_argi(argc, argv, "--type", 0);
                lean32(SW.shard, SW.nshards, (cat_var_type)t, (uint32_t)sw_argi(argc, argv, "--limit", 0));
                if (WS.nsamples < 6) w_sample("lean full-range sweep of 32-bit type %d, shard %d/%d: every value printed by READ and written back", t, SW.shard, SW.nshards);
        }
        char tag[64];
        snprintf(tag, sizeof tag, "roundtrip-%s-%d", fam, SW.shard);
        return sw_finish(tag);
}
