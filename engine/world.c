#define _GNU_SOURCE
#include "world.h"
#include "wint.h"
#include <stdlib.h>
#include <string.h>
#include <stdarg.h>
#include <ctype.h>

struct wcfg W;
struct calllog L;
struct wstats WS;
struct cat_object *w_obj;
volatile int w_san_error;
const uint8_t *w_feed; int w_feed_n, w_feed_pos;

struct wint I;        /* internal handles (see wint.h) */

/* ------------------------------------------------------------------ */
/* allocation with canaries; every block is a state region              */

#ifdef W_SANITIZE
#define CANARY 0
#else
#define CANARY 16
#endif
#define CANARY_BYTE 0xC5

struct blk { uint8_t *base; uint8_t *p; size_t n; };
static struct blk blks[1200];
static int nblk;

uint8_t *w_alloc(size_t n, const char *name)
{
        if (nblk >= (int)(sizeof blks / sizeof blks[0])) mcx_fatal("too many blocks");
        size_t real = n ? n : 1;
        uint8_t *base;
#ifdef W_SANITIZE
        base = malloc(n);                /* exact size (possibly 0): red zone right after the last legal byte */
        (void)real;
        if (!base) mcx_fatal("oom");
        if (n) memset(base, 0, n);
        blks[nblk] = (struct blk){base, base, n};
#else
        size_t tot = ((real + 15) & ~(size_t)15) + 2 * CANARY;
        base = aligned_alloc(16, tot);
        if (!base) mcx_fatal("oom");
        memset(base, CANARY_BYTE, tot);
        memset(base + CANARY, 0, n);
        blks[nblk] = (struct blk){base, base + CANARY, n};
#endif
        if (n) mcx_region(blks[nblk].p, n, name);
        return blks[nblk++].p;
}

static void w_free_all(void)
{
        for (int i = 0; i < nblk; i++) free(blks[i].base);
        nblk = 0;
        mcx_region_reset();
}

/* returns index of the damaged block or -1 */
static int canaries_ok(void)
{
#ifndef W_SANITIZE
        for (int i = 0; i < nblk; i++) {
                uint8_t *b = blks[i].base;
                for (int k = 0; k < CANARY; k++)
                        if (b[k] != CANARY_BYTE) return i;
                uint8_t *e = blks[i].p + blks[i].n;
                size_t tail = (size_t)((blks[i].base + (((blks[i].n ? blks[i].n : 1) + 15) & ~(size_t)15) + 2 * CANARY) - e);
                for (size_t k = 0; k < tail; k++)
                        if (e[k] != CANARY_BYTE) return i;
        }
#endif
        return -1;
}

/* ------------------------------------------------------------------ */
/* violations                                                          */

const char *w_prop = "C00";

void VIOL(unsigned mask, const char *fmt, ...)
{
        if (!(mask & W.mon)) return;
        if (mcx_violated()) return;
        char msg[900];
        va_list ap;
        va_start(ap, fmt);
        vsnprintf(msg, sizeof msg, fmt, ap);
        va_end(ap);
        mcx_violation(w_prop, "%s", msg);
}

/* ------------------------------------------------------------------ */
/* defaults                                                            */

void wcfg_defaults(struct wcfg *c)
{
        memset(c, 0, sizeof *c);
        c->cap = 16; c->shared = 0; c->buf_size = 16; c->ubuf_size = 16;
        c->ngrp = 1;
        c->max_inv = 2;
        c->line_max = 96;
        c->mon = P_ALL;
        c->merge_doomed = 1;
        c->gen.max_name = 4; c->gen.max_args = 4; c->gen.lines = 1;
        static const int8_t dw[] = {CAT_RETURN_STATE_OK, CAT_RETURN_STATE_ERROR};
        for (int k = 0; k < 4; k++) { memcpy(c->codes[k], dw, 2); c->ncodes[k] = 2; memcpy(c->ecodes[k], dw, 2); c->necodes[k] = 2; }
}

/* ------------------------------------------------------------------ */
/* table DSL                                                           */
/*  table := group ('|' group)*        group := ['!'] cmd (';' cmd)*     */
/*  after '||' come event-only commands (not registered)                 */
/*  cmd := name [':' attr (',' attr)*]                                    */
/*  attr: W R U T (handlers) o(only_test) d(disable) i(implicit) n(need_all) */
/*        D=<desc>    v<type><size><acc>[@name][/r][/w]                   */
/*        type: i u x b s ; acc: rw ro wo                                 */

static int parse_var(struct wvar *v, const char *s)
{
        memset(v, 0, sizeof *v);
        switch (*s++) {
        case 'i': v->type = CAT_VAR_INT_DEC; break;
        case 'u': v->type = CAT_VAR_UINT_DEC; break;
        case 'x': v->type = CAT_VAR_NUM_HEX; break;
        case 'b': v->type = CAT_VAR_BUF_HEX; break;
        case 's': v->type = CAT_VAR_BUF_STRING; break;
        default: return -1;
        }
        int sz = 0;
        while (isdigit((unsigned char)*s)) sz = sz * 10 + (*s++ - '0');
        if (sz < 1 || sz > 64) return -1;
        v->size = (uint8_t)sz;
        if (!strncmp(s, "rw", 2)) v->access = CAT_VAR_ACCESS_READ_WRITE;
        else if (!strncmp(s, "ro", 2)) v->access = CAT_VAR_ACCESS_READ_ONLY;
        else if (!strncmp(s, "wo", 2)) v->access = CAT_VAR_ACCESS_WRITE_ONLY;
        else return -1;
        s += 2;
        while (*s) {
                if (*s == '@') {
                        s++;
                        int k = 0;
                        while (*s && *s != '/' && k < (int)sizeof v->name - 1) v->name[k++] = *s++;
                        v->name[k] = 0; v->has_name = 1;
                } else if (s[0] == '/' && s[1] == 'r') { v->rcb = 1; s += 2; }
                else if (s[0] == '/' && s[1] == 'w') { v->wcb = 1; s += 2; }
                else return -1;
        }
        return 0;
}

int table_parse(struct wcfg *c, const char *spec)
{
        char *dup = strdup(spec);
        int ncmd = 0, grp = 0, registered = 1;
        struct wcmd *cmds = calloc(1024, sizeof *cmds);
        memset(c->grp_disable, 0, sizeof c->grp_disable);
        char *p = dup;
        int at_group_start = 1;
        while (*p) {
                if (at_group_start && *p == '!') { c->grp_disable[grp] = 1; p++; }
                at_group_start = 0;
                /* read one command up to ';' or '|' */
                char *e = p;
                while (*e && *e != ';' && *e != '|') e++;
                char sep = *e;
                *e = 0;
                struct wcmd *cm = &cmds[ncmd];
                memset(cm, 0, sizeof *cm);
                cm->group = (uint8_t)grp; cm->registered = (uint8_t)registered;
                char *colon = strchr(p, ':');
                if (colon) *colon = 0;
                if (strlen(p) >= sizeof cm->name) { free(dup); free(cmds); return -1; }
                strcpy(cm->name, p);
                if (colon) {
                        char *a = colon + 1;
                        while (*a) {
                                char *ae = a;
                                while (*ae && *ae != ',') ae++;
                                char asep = *ae; *ae = 0;
                                if (a[0] == 'D' && a[1] == '=') {
                                        /* description text; the two-character sequences \n and \r stand for LF and CR inside the description */
                                        size_t dn = 0;
                                        for (const char *q = a + 2; *q && dn + 1 < sizeof cm->desc; q++) {
                                                if (q[0] == '\\' && (q[1] == 'n' || q[1] == 'r')) { cm->desc[dn++] = q[1] == 'n' ? '\n' : '\r'; q++; }
                                                else cm->desc[dn++] = *q;
                                        }
                                        cm->desc[dn] = 0; cm->has_desc = 1;
                                }
                                else if (a[0] == 'v') { if (cm->nvar >= W_MAXVAR || parse_var(&cm->var[cm->nvar], a + 1)) { free(dup); free(cmds); return -1; } cm->nvar++; }
                                else for (char *q = a; *q; q++) switch (*q) {
                                        case 'W': cm->hmask |= HM_W; break;
                                        case 'R': cm->hmask |= HM_R; break;
                                        case 'U': cm->hmask |= HM_U; break;
                                        case 'T': cm->hmask |= HM_T; break;
                                        case 'o': cm->only_test = 1; break;
                                        case 'd': cm->disable = 1; break;
                                        case 'i': cm->implicit = 1; break;
                                        case 'n': cm->need_all = 1; break;
                                        case 'p': cm->var_ptr = 1; break;
                                        default: free(dup); free(cmds); return -1;
                                        }
                                a = asep ? ae + 1 : ae;
                        }
                }
                ncmd++;
                if (!sep) break;
                p = e + 1;
                if (sep == '|') {
                        if (*p == '|') { registered = 0; p++; grp = 255; }
                        else { grp++; if (grp >= W_MAXGRP) { free(dup); free(cmds); return -1; } }
                        at_group_start = registered;
                }
        }
        free(dup);
        free(c->cmd);
        c->cmd = cmds; c->ncmd = ncmd;
        int maxg = 0;
        for (int i = 0; i < ncmd; i++) if (cmds[i].registered && cmds[i].group > maxg) maxg = cmds[i].group;
        c->ngrp = maxg + 1;
        return 0;
}

void table_print(const struct wcfg *c, char *out, size_t n)
{
        size_t o = 0;
        int lastg = 0, ev = 0;
#define AP(...) do { int _k = snprintf(out + o, o < n ? n - o : 0, __VA_ARGS__); if (_k > 0) o += (size_t)_k; } while (0)
        if (c->grp_disable[0]) AP("!");
        for (int i = 0; i < c->ncmd; i++) {
                const struct wcmd *cm = &c->cmd[i];
                if (i > 0) {
                        if (!cm->registered && !ev) { AP("||"); ev = 1; }
                        else if (cm->registered && cm->group != lastg) { AP("|"); lastg = cm->group; if (c->grp_disable[lastg]) AP("!"); }
                        else AP(";");
                }
                AP("%s", cm->name);
                int first = 1;
#define SEP() do { AP(first ? ":" : ","); first = 0; } while (0)
                char fl[16]; int k = 0;
                if (cm->hmask & HM_W) fl[k++] = 'W';
                if (cm->hmask & HM_R) fl[k++] = 'R';
                if (cm->hmask & HM_U) fl[k++] = 'U';
                if (cm->hmask & HM_T) fl[k++] = 'T';
                if (cm->only_test) fl[k++] = 'o';
                if (cm->disable) fl[k++] = 'd';
                if (cm->implicit) fl[k++] = 'i';
                if (cm->need_all) fl[k++] = 'n';
                if (cm->var_ptr) fl[k++] = 'p';
                fl[k] = 0;
                if (k) { SEP(); AP("%s", fl); }
                for (int v = 0; v < cm->nvar; v++) {
                        const struct wvar *wv = &cm->var[v];
                        SEP();
                        AP("v%c%d%s", "iuxbs"[wv->type], wv->size, wv->access == CAT_VAR_ACCESS_READ_WRITE ? "rw" : wv->access == CAT_VAR_ACCESS_READ_ONLY ? "ro" : "wo");
                        if (wv->has_name) AP("@%s", wv->name);
                        if (wv->rcb) AP("/r");
                        if (wv->wcb) AP("/w");
                }
                if (cm->has_desc) {
                        SEP(); AP("D=");
                        for (const char *q = cm->desc; *q; q++) { if (*q == '\n') AP("\\n"); else if (*q == '\r') AP("\\r"); else AP("%c", *q); }
                }
        }
        if (o >= n && n) out[n - 1] = 0;
}

/* ------------------------------------------------------------------ */
/* build                                                               */

static int io_read(char *ch);
static int io_write(char ch);
static int mx_lock(void);
static int mx_unlock(void);
static cat_return_state h_write(const struct cat_command *cmd, const uint8_t *data, const size_t data_size, const size_t args_num);
static cat_return_state h_read(const struct cat_command *cmd, uint8_t *data, size_t *data_size, const size_t max);
static cat_return_state h_run(const struct cat_command *cmd);
static cat_return_state h_test(const struct cat_command *cmd, uint8_t *data, size_t *data_size, const size_t max);
static int v_write(const struct cat_variable *var, const size_t write_size);
static int v_read(const struct cat_variable *var);

static struct cat_io_interface io_if;
static struct cat_mutex_interface mx_if;
static void interfere_init(void);
static void interfere_tick(void);
static void interfere_regions(void);
static struct cat_object B_obj;         /* second parser object (defined with the interferer below) */
static struct cat_command B_cmds[6];
static int B_locks, B_unlocks;

void world_free(void)
{
        w_free_all();
        free(I.vars); I.vars = NULL;
        free(I.grp_ptrs); I.grp_ptrs = NULL;
        free(I.varoff); I.varoff = NULL;
        memset(&I, 0, sizeof I);
}

void world_build(void)
{
        world_free();
        io_if.read = io_read; io_if.write = io_write;
        mx_if.lock = mx_lock; mx_if.unlock = mx_unlock;

        I.obj = (struct cat_object *)w_alloc(sizeof(struct cat_object), "obj");
        w_obj = I.obj;
        if (W.interfere) interfere_regions();     /* the second parser object is part of the explored state */
        I.S = (struct wstate *)w_alloc(sizeof(struct wstate), "wstate");
        I.line = w_alloc((size_t)W.line_max, "line");
        I.cmds = (struct cat_command *)w_alloc(sizeof(struct cat_command) * (size_t)(W.ncmd ? W.ncmd : 1), "cmds");
        I.groups = (struct cat_command_group *)w_alloc(sizeof(struct cat_command_group) * (size_t)(W.ngrp + 1), "groups");
        I.desc = (struct cat_descriptor *)w_alloc(sizeof(struct cat_descriptor), "desc");
        I.buf = w_alloc((size_t)W.buf_size, "buf");
        I.ubuf = W.shared ? NULL : w_alloc((size_t)W.ubuf_size, "ubuf");
        I.cap = W.shared ? W.buf_size / 2 : W.buf_size;
        I.ucap = W.shared ? W.buf_size / 2 : W.ubuf_size;
        if (I.cap != W.cap) mcx_fatal("config: cap %d inconsistent with buf_size %d shared %d", W.cap, W.buf_size, W.shared);

        int nv = 0;
        for (int i = 0; i < W.ncmd; i++) nv += W.cmd[i].nvar;
        I.nvars = nv;
        I.vars = calloc((size_t)(nv ? nv : 1), sizeof *I.vars);
        I.varoff = calloc((size_t)W.ncmd + 1, sizeof *I.varoff);
        I.vardata = calloc((size_t)(nv ? nv : 1), sizeof *I.vardata);
        I.shadow = calloc((size_t)(nv ? nv : 1), sizeof *I.shadow);
        int k = 0;
        for (int i = 0; i < W.ncmd; i++) {
                I.varoff[i] = k;
                for (int v = 0; v < W.cmd[i].nvar; v++, k++) {
                        I.vardata[k] = w_alloc(W.cmd[i].var[v].size, "var");
                        I.shadow[k] = w_alloc(W.cmd[i].var[v].size, "shadow");
                }
        }
        I.varoff[W.ncmd] = k;
        I.grp_ptrs = calloc((size_t)W.ngrp + 1, sizeof *I.grp_ptrs);
        world_init();
}

uint8_t *w_vardata(int cmd, int var) { return I.vardata[I.varoff[cmd] + var]; }
uint8_t *w_shadow(int cmd, int var) { return I.shadow[I.varoff[cmd] + var]; }
void w_set_var(int cmd, int var, const void *bytes)
{
        memcpy(w_vardata(cmd, var), bytes, W.cmd[cmd].var[var].size);
        memcpy(w_shadow(cmd, var), bytes, W.cmd[cmd].var[var].size);
}

static void init_var_value(int c, int v)
{
        const struct wvar *wv = &W.cmd[c].var[v];
        uint8_t tmp[64];
        memset(tmp, 0, sizeof tmp);
        switch (wv->type) {
        case CAT_VAR_INT_DEC: case CAT_VAR_UINT_DEC: case CAT_VAR_NUM_HEX:
                tmp[0] = (uint8_t)(5 + v + W.var_init);
                break;
        case CAT_VAR_BUF_HEX:
                for (int i = 0; i < wv->size; i++) tmp[i] = (uint8_t)(0x10 * (i + 1) + v + W.var_init);
                break;
        case CAT_VAR_BUF_STRING:
                /* contents that need every escape when formatted: letter, LF, quote, backslash (as far as the size allows) */
                { static const uint8_t pat[4] = {'p', '\n', '"', '\\'}; for (int i = 0; i + 1 < wv->size && i < 4; i++) tmp[i] = (i == 0) ? (uint8_t)('p' + v) : pat[i];
                  if (W.str_full) for (int i = 0; i < wv->size; i++) if (!tmp[i]) tmp[i] = (uint8_t)('a' + i % 26); }
                break;
        }
        if (wv->access == CAT_VAR_ACCESS_WRITE_ONLY && W.wo_fill == 0x180) {
                /* most negative value of the width (little endian): 00 .. 00 80 */
                memset(tmp, 0, wv->size); tmp[wv->size - 1] = 0x80;
        } else if (wv->access == CAT_VAR_ACCESS_WRITE_ONLY && W.wo_fill) {
                memset(tmp, W.wo_fill, wv->size);
                if (wv->type == CAT_VAR_BUF_STRING) tmp[wv->size - 1] = 0;
        }
        w_set_var(c, v, tmp);
}

void world_init(void)
{
        /* everything that is state is rewritten here */
        memset(I.obj, 0, sizeof *I.obj);
        memset(I.S, 0, sizeof *I.S);
        memset(I.line, 0, (size_t)W.line_max);
        memset(I.buf, 0, (size_t)W.buf_size);
        if (I.ubuf) memset(I.ubuf, 0, (size_t)W.ubuf_size);
        memset(I.cmds, 0, sizeof(struct cat_command) * (size_t)(W.ncmd ? W.ncmd : 1));
        memset(I.groups, 0, sizeof(struct cat_command_group) * (size_t)W.ngrp);
        memset(I.desc, 0, sizeof *I.desc);
        int k = 0;
        for (int i = 0; i < W.ncmd; i++) {
                const struct wcmd *wc = &W.cmd[i];
                struct cat_command *c = &I.cmds[i];
                c->name = wc->name;
                c->description = wc->has_desc ? wc->desc : NULL;
                c->write = (wc->hmask & HM_W) ? h_write : NULL;
                c->read = (wc->hmask & HM_R) ? h_read : NULL;
                c->run = (wc->hmask & HM_U) ? h_run : NULL;
                c->test = (wc->hmask & HM_T) ? h_test : NULL;
                c->var = wc->nvar ? &I.vars[k] : (wc->var_ptr ? &I.vars[0] : NULL);
                c->var_num = wc->nvar;
                c->need_all_vars = wc->need_all; c->only_test = wc->only_test;
                c->disable = wc->disable; c->implicit_write = wc->implicit;
                for (int v = 0; v < wc->nvar; v++, k++) {
                        struct cat_variable *cv = &I.vars[k];
                        cv->name = wc->var[v].has_name ? wc->var[v].name : NULL;
                        cv->type = wc->var[v].type;
                        cv->data = I.vardata[k];
                        cv->data_size = wc->var[v].size;
                        cv->access = wc->var[v].access;
                        cv->write = wc->var[v].wcb ? v_write : NULL;
                        cv->read = wc->var[v].rcb ? v_read : NULL;
                        init_var_value(i, v);
                }
        }
        I.n_ro = 0;
        for (int c = 0; c < W.ncmd; c++) for (int v = 0; v < W.cmd[c].nvar; v++) if (W.cmd[c].var[v].access == CAT_VAR_ACCESS_READ_ONLY) I.n_ro++;
        int first = 0;
        I.nreg = 0;
        for (int g = 0; g < W.ngrp; g++) {
                int n = 0;
                while (first + n < W.ncmd && W.cmd[first + n].registered && W.cmd[first + n].group == g) n++;
                if (n == 0) mcx_fatal("config: empty command group %d", g);
                I.groups[g].name = NULL;
                I.groups[g].cmd = &I.cmds[first];
                I.groups[g].cmd_num = (size_t)n;
                I.groups[g].disable = W.grp_disable[g];
                I.grp_ptrs[g] = &I.groups[g];
                first += n;
                I.nreg += n;
        }
        int nlib = I.nreg;
        I.desc->cmd_group = I.grp_ptrs;
        I.desc->cmd_group_num = (size_t)W.ngrp;
        if (W.alias_group) {
                /* the same command array registered twice: its second registration belongs to a disabled group, so those slots are
                 * invisible and the reference (which knows each command once) is unaffected */
                I.groups[W.ngrp] = (struct cat_command_group){.name = NULL, .cmd = I.groups[0].cmd, .cmd_num = I.groups[0].cmd_num, .disable = true};
                I.grp_ptrs[W.ngrp] = &I.groups[W.ngrp];
                I.desc->cmd_group_num = (size_t)W.ngrp + 1;
                nlib += (int)I.groups[0].cmd_num;
        }
        I.desc->buf = I.buf;
        I.desc->buf_size = (size_t)W.buf_size;
        I.desc->unsolicited_buf = I.ubuf;
        I.desc->unsolicited_buf_size = W.shared ? (size_t)W.stale_usize : (size_t)W.ubuf_size;
        if (nlib > (W.shared ? W.buf_size / 2 : W.buf_size) * 4) mcx_fatal("config: too many commands for buffer (outside supported domain)");
        if (W.cap < 6) mcx_fatal("config: capacity %d below supported minimum 6", W.cap);
        /* the second parser object is initialised before the one under test in mode 1 and after it in mode 2 */
        if (W.interfere == 1) interfere_init();
        cat_init(I.obj, I.desc, &io_if, W.use_mutex ? &mx_if : NULL);
        if (W.interfere >= 2) interfere_init();
        gen_init(&I.S->gen);
        I.S->trig_left = (uint8_t)W.trig_budget;
        I.S->flag_left = (uint8_t)W.flag_budget;
        I.S->reinit_left = (uint8_t)(W.act_reinit ? (W.reinit_budget > 0 ? W.reinit_budget : 1) : 0);
        mon_init();
        I.out_n = 0; I.raw_n = 0; I.out_mark = 0;
        I.depth = 0;
        w_feed_pos = 0;
}

uint64_t w_lib_hash(void)
{
        /* hash of everything the library owns or may legitimately change */
        uint64_t h = 1469598103934665603ULL;
        mcx_hash_t a = mcx_hash_bytes(I.obj, sizeof *I.obj, 1);
        h ^= a.a; h *= 1099511628211ULL;
        a = mcx_hash_bytes(I.buf, (size_t)W.buf_size, 2);
        h ^= a.a; h *= 1099511628211ULL;
        if (I.ubuf) { a = mcx_hash_bytes(I.ubuf, (size_t)W.ubuf_size, 3); h ^= a.a; h *= 1099511628211ULL; }
        for (int k = 0; k < I.nvars; k++) {
                int c = 0;
                while (I.varoff[c + 1] <= k) c++;
                a = mcx_hash_bytes(I.vardata[k], W.cmd[c].var[k - I.varoff[c]].size, 4 + (uint64_t)k);
                h ^= a.a; h *= 1099511628211ULL;
        }
        return h;
}

/* ------------------------------------------------------------------ */
/* output capture (not state; for drivers / replay printing)            */

const char *w_output(void) { return (const char *)I.out; }
int w_output_len(void) { return I.out_n; }
void w_output_reset(void) { I.out_n = 0; }

/* ------------------------------------------------------------------ */
/* io callbacks                                                         */

static void lock_required(const char *what)
{
        if (W.use_mutex && I.depth != 1)
                VIOL(P_C16, "C16: %s callback invoked with lock depth %d (must be exactly 1)", what, I.depth);
}

int w_force_refuse;     /* refusal-run probe: every io attempt is refused, no choice is consumed (2: only reads are refused: idle probe) */
int w_noread_value;     /* value io_read returns for "no byte" when refuse_read does not say otherwise */

/* Values by which the environment says "no": io callbacks (cat.h: only 1 means done) and mutex / variable callbacks
 * (only 0 means done).  The option value selects one; the menus hold a representative of every way an int can be
 * mangled on its way to the comparison (sign, truncation to 8 or 16 bits, bool conversion). */
static int io_no_value(int opt)
{
        static const int V[] = {0, 0, -1, 2, 257, 65537, (int)0x80000001u, 256};
        return V[opt >= 0 && opt < 8 ? opt : 0];
}
static int cb_fail_value(int opt)
{
        static const int V[] = {1, 1, -1, 256, 65536, (int)0x80000000u, 2};
        return V[opt >= 0 && opt < 7 ? opt : 0];
}

static int io_read(char *ch)
{
        lock_required("io read");
        L.reads_attempted++;
        /* refuse_read: 1 = "no byte" is signalled by 0; 2 = by -1; 3 = by 2 (cat.h: only 1 means a byte was read); sweeps take the value from CAT_SWEEP_NOREAD */
        int nobyte = W.refuse_read > 1 ? io_no_value(W.refuse_read) : w_noread_value;
        if (w_force_refuse) { L.reads_refused++; if (W.scribble) *ch = '\n'; return nobyte; }
        if (w_feed) {
                if (w_feed_pos >= w_feed_n) { L.reads_refused++; if (W.scribble) *ch = 'A'; return nobyte; }
                uint8_t b = w_feed[w_feed_pos++];
                *ch = (char)b;
                L.reads_delivered++;
                if (L.in_n < (int)sizeof L.in) L.in[L.in_n++] = b;
                if (I.raw_n < (int)sizeof I.raw) I.raw[I.raw_n++] = b;
                mon_input(b);
                return 1;
        }
        struct genopt opts[GEN_MAXOPT];
        int n = gen_menu(&I.S->gen, opts);
        if (n == 0) { L.reads_refused++; if (W.scribble) *ch = '\n'; return nobyte; }
        int c;
        if (W.refuse_read) c = mcx_choose(n + 1); else c = mcx_choose(n);
        if (c == n) {
                L.reads_refused++; if (W.scribble) *ch = '\n';
                /* an application may use the 'nothing to read' moment to raise an event from inside the callback */
                if (W.io_trigger && !W.use_mutex && W.nev > 0 && (W.trig_budget == 0 || I.S->trig_left > 0)) {
                        int e = mcx_choose(W.nev + 1);
                        if (e > 0) { do_trigger(e - 1, 1); L.nonquiet = 1; L.io_triggered = 1; }
                }
                return nobyte;
        }
        uint8_t b = opts[c].byte;
        I.S->gen = opts[c].next;
        *ch = (char)b;
        L.reads_delivered++;
        if (L.in_n < (int)sizeof L.in) L.in[L.in_n++] = b;
        if (I.raw_n < (int)sizeof I.raw) I.raw[I.raw_n++] = b;
        mon_input(b);
        return 1;
}

static int io_write(char ch)
{
        lock_required("io write");
        L.writes_attempted++;
        /* refuse_write: 1 = refusals return 0; 2.. = another value of io_no_value (cat.h: only 1 means written) */
        if (w_force_refuse == 1) { L.writes_refused++; return io_no_value(W.refuse_write); }
        if (W.refuse_write && mcx_choose(2) == 1) { L.writes_refused++; return io_no_value(W.refuse_write); }
        L.writes_accepted++;
        if (L.out_n < (int)sizeof L.out) L.out[L.out_n++] = (uint8_t)ch;
        if (I.out_n < (int)sizeof I.out) I.out[I.out_n++] = (uint8_t)ch;
        mon_output((uint8_t)ch);
        return 1;
}

static int mx_lock(void)
{
        L.locks++;
        if (I.depth != 0) {
                /* the user's mutex is not re-entrant: a nested acquisition fails (and is a C16 violation in itself) */
                VIOL(P_C16, "C16: lock() called while already locked (depth %d)", I.depth);
                L.nested_lock_refused++;
                return cb_fail_value(W.mutex_faults);
        }
        if (I.api_hash_valid && w_lib_hash() != I.api_hash)
                VIOL(P_C16, "C16: parser state changed between API entry and lock()");
        if (W.mutex_faults && mcx_choose(2) == 1) { L.lock_failed = 1; WS.lock_faults++; return cb_fail_value(W.mutex_faults); }   /* cat.h: 0 = locked, anything else = cannot lock */
        I.depth++;
        return 0;
}

static int mx_unlock(void)
{
        L.unlocks++;
        if (I.depth != 1) VIOL(P_C16, "C16: unlock() called with lock depth %d", I.depth);
        I.depth = 0;
        I.unlock_hash = w_lib_hash();
        I.unlock_hash_valid = 1;
        if (W.mutex_faults && mcx_choose(2) == 1) { L.unlock_failed = 1; WS.unlock_faults++; return cb_fail_value(W.mutex_faults); }
        return 0;
}

/* ------------------------------------------------------------------ */
/* handlers                                                            */

static int cmd_index(const struct cat_command *cmd)
{
        ptrdiff_t d = cmd - I.cmds;
        if (d < 0 || d >= W.ncmd) mcx_fatal("handler called with unknown command pointer");
        return (int)d;
}

static int is_evt_buf(const uint8_t *data)
{
        const uint8_t *ub = I.ubuf ? I.ubuf : I.buf + W.buf_size / 2;
        if (data == ub) return 1;
        if (data == I.buf) return 0;
        return -1;
}

static int pick_code(int evt, int kind, int *nonterm_left)
{
        const int8_t *menu = evt ? W.ecodes[kind] : W.codes[kind];
        int n = evt ? W.necodes[kind] : W.ncodes[kind];
        int8_t opts[12]; int m = 0;
        for (int i = 0; i < n; i++) {
                int nt = (menu[i] == CAT_RETURN_STATE_NEXT || menu[i] == CAT_RETURN_STATE_DATA_NEXT);
                if (nt && *nonterm_left <= 0) continue;
                opts[m++] = menu[i];
        }
        if (m == 0) mcx_fatal("config: no terminal return code in menu kind %d", kind);
        int c = mcx_choose(m);
        if (c != 0) L.nonquiet = 1;
        int code = opts[c];
        if (code == CAT_RETURN_STATE_NEXT || code == CAT_RETURN_STATE_DATA_NEXT) (*nonterm_left)--;
        return code;
}

/* optional side effects from inside a handler (no mutex configured) */
static void handler_side_effects(int evt)
{
        if (W.interfere) {
                /* a callback of this object raises an event on the other object: that object's own lock is taken and released once */
                int l0 = B_locks, u0 = B_unlocks;
                cat_status ts = cat_trigger_unsolicited_read(&B_obj, &B_cmds[4]);
                if (B_locks != l0 + 1 || B_unlocks != u0 + 1)
                        VIOL(P_C16 | P_C17, "C16: cat_trigger_unsolicited_read on a second parser object, called from a callback of the first, made %d lock and %d unlock calls on that object's mutex (want 1 and 1)", B_locks - l0, B_unlocks - u0);
                if (ts != CAT_STATUS_OK && ts != CAT_STATUS_ERROR_BUFFER_FULL)
                        VIOL(P_C16 | P_C13, "C13/C16: cat_trigger_unsolicited_read on a second parser object answered %d", (int)ts);
        }
        if (W.use_mutex) {
                /* the two query functions documented as lock-free may be called from inside callbacks */
                if (W.nev > 0) {
                        cat_status qs = cat_is_unsolicited_event_buffered(I.obj, &I.cmds[W.ev[0].cmd], CAT_CMD_TYPE_NONE);
                        if (qs != CAT_STATUS_OK && qs != CAT_STATUS_BUSY)
                                VIOL(P_C13 | P_C16, "C13: cat_is_unsolicited_event_buffered answered %d when called from inside a handler (it is documented as not using the mutex)", (int)qs);
                }
                (void)cat_get_processed_command(I.obj, CAT_FSM_TYPE_UNSOLICITED);
                return;
        }
        if (!evt && W.h_trigger && W.nev > 0 && (W.trig_budget == 0 || I.S->trig_left > 0)) {
                int c = mcx_choose(W.nev + 1);
                if (c > 0) { L.nonquiet = 1; do_trigger(c - 1, 1); }
        }
        if (evt && W.h_hold_exit) {
                int c = mcx_choose(3);
                if (c > 0) { L.nonquiet = 1; do_hold_exit(c == 1 ? CAT_STATUS_OK : CAT_STATUS_ERROR, 1); }
        }
}

static cat_return_state h_write(const struct cat_command *cmd, const uint8_t *data, const size_t data_size, const size_t args_num)
{
        lock_required("write handler");
        L.handler_calls++;
        int ci = cmd_index(cmd);
        WS.handler_calls[0][HK_W]++;
        int left = 0;
        int ok = ref_expect_handler(0, HK_W, ci, data, data_size, args_num, 0, &left);
        handler_side_effects(0);
        int code = pick_code(0, HK_W, &left);
        if (ok) ref_handler_returned(0, HK_W, code, NULL, 0);
        return (cat_return_state)code;
}

static cat_return_state h_run(const struct cat_command *cmd)
{
        lock_required("run handler");
        L.handler_calls++;
        int ci = cmd_index(cmd);
        WS.handler_calls[0][HK_U]++;
        int left = 0;
        int ok = ref_expect_handler(0, HK_U, ci, NULL, 0, 0, 0, &left);
        handler_side_effects(0);
        int code = pick_code(0, HK_U, &left);
        if (ok) ref_handler_returned(0, HK_U, code, NULL, 0);
        return (cat_return_state)code;
}

static cat_return_state h_rt(int kind, const struct cat_command *cmd, uint8_t *data, size_t *data_size, const size_t max)
{
        lock_required(kind == HK_R ? "read handler" : "test handler");
        L.handler_calls++;
        int ci = cmd_index(cmd);
        int evt = is_evt_buf(data);
        if (evt < 0) {
                VIOL(P_C06 | P_C03 | P_C10 | P_C11, "C06: %s handler of %s got a data pointer that is neither working buffer", kind == HK_R ? "read" : "test", cmd->name);
                return CAT_RETURN_STATE_ERROR;
        }
        WS.handler_calls[evt][kind]++;
        int left = 0;
        int ok = ref_expect_handler(evt, kind, ci, data, *data_size, 0, max, &left);
        handler_side_effects(evt);
        int code = pick_code(evt, kind, &left);
        /* capacity is real: touch every byte the handler is told it may use */
        size_t len = *data_size;
        if (ok && max > 0 && len < max) {
                uint8_t keep[W_TEXT];
                if (len < sizeof keep) {
                        memcpy(keep, data, len);
                        memset(data, 0x7e, max);
                        memcpy(data, keep, len);
                        data[len] = 0;
                }
        }
        if (ok && W.tok_mode && max >= 4) {
                /* overwrite the response with a token identifying this invocation */
                int inv = ref_inv_count(evt);
                data[0] = evt ? 'd' : 'D';
                data[1] = (uint8_t)('0' + (inv % 10));
                data[2] = 0;
                *data_size = 2;
                /* token mode 2: every other invocation hands back an empty response (an empty line is still a line) */
                if (W.tok_mode == 2 && (inv & 1)) { data[0] = 0; *data_size = 0; }
        }
        if (ok) ref_handler_returned(evt, kind, code, data, *data_size);
        return (cat_return_state)code;
}

static cat_return_state h_read(const struct cat_command *cmd, uint8_t *data, size_t *data_size, const size_t max)
{
        return h_rt(HK_R, cmd, data, data_size, max);
}
static cat_return_state h_test(const struct cat_command *cmd, uint8_t *data, size_t *data_size, const size_t max)
{
        return h_rt(HK_T, cmd, data, data_size, max);
}

static void var_index(const struct cat_variable *var, int *c, int *v)
{
        ptrdiff_t d = var - I.vars;
        if (d < 0 || d >= I.nvars) mcx_fatal("variable callback with unknown variable pointer");
        int ci = 0;
        while (I.varoff[ci + 1] <= d) ci++;
        *c = ci; *v = (int)(d - I.varoff[ci]);
}

static int v_write(const struct cat_variable *var, const size_t write_size)
{
        lock_required("variable write");
        L.var_calls++;
        int c, v;
        var_index(var, &c, &v);
        int r = 0;
        if (W.varcb_fail) { r = mcx_choose(2); if (r) L.nonquiet = 1; }
        ref_var_cb(1, c, v, write_size, r);
        return r ? cb_fail_value(W.varcb_fail) : 0;       /* any non-zero value is a failure */
}

static int v_read(const struct cat_variable *var)
{
        lock_required("variable read");
        L.var_calls++;
        int c, v;
        var_index(var, &c, &v);
        int r = 0;
        if (W.varcb_fail) { r = mcx_choose(2); if (r) L.nonquiet = 1; }
        ref_var_cb(0, c, v, 0, r);
        return r ? cb_fail_value(W.varcb_fail) : 0;
}

/* ------------------------------------------------------------------ */
/* a second, unrelated parser object (sweeps only): module-level state inside the library that is
 * shared between parser objects shows up as a disagreement of the first object with the reference */

static struct cat_object B_obj;
static struct cat_command B_cmds[6];
static struct cat_command_group B_g0, B_g1, *B_groups[2];
static struct cat_descriptor B_desc;
static uint8_t B_buf[16];
static struct cat_variable B_var, B_svar;
static uint8_t B_val, B_sval[4];
static const char B_stream[] = "ATQA\nATQ\nATQE?\nATQC=1\nATQB\nATQ\rD\r\nATQC=7\nATQS=\"ab\"\nATQS?\n";
static int B_pos, B_gate;
/* mode 1: one cat_service call of B per call of the object under test; mode 2: one whole line of B's stream (gate closes after its LF) */
static int B_read(char *ch)
{
        if (W.interfere == 2 && !B_gate) return 0;
        *ch = B_stream[B_pos]; B_pos = (B_pos + 1) % (int)(sizeof B_stream - 1);
        if (*ch == '\n') B_gate = 0;
        return 1;
}
static int B_write(char ch) { (void)ch; return 1; }
static cat_return_state B_run(const struct cat_command *c) { return (c->name[1] == 'B') ? CAT_RETURN_STATE_PRINT_CMD_LIST_OK : CAT_RETURN_STATE_OK; }
static struct cat_io_interface B_io = {.write = B_write, .read = B_read};
/* B has a mutex of its own: every locking API call on B must take and release it exactly once, whoever calls */
static int B_locks, B_unlocks;
static int B_lock(void) { B_locks++; return 0; }
static int B_unlock(void) { B_unlocks++; return 0; }
static struct cat_mutex_interface B_mx = {.lock = B_lock, .unlock = B_unlock};

static void interfere_regions(void)
{
        mcx_region(&B_obj, sizeof B_obj, "B_obj");
        mcx_region(B_buf, sizeof B_buf, "B_buf");
        mcx_region(&B_val, sizeof B_val, "B_val");
        mcx_region(B_sval, sizeof B_sval, "B_sval");
        mcx_region(&B_pos, sizeof B_pos, "B_pos");
        mcx_region(&B_gate, sizeof B_gate, "B_gate");
}

static void interfere_init(void)
{
        memset(&B_obj, 0, sizeof B_obj);
        B_var = (struct cat_variable){.type = CAT_VAR_UINT_DEC, .data = &B_val, .data_size = 1, .access = CAT_VAR_ACCESS_READ_WRITE};
        B_svar = (struct cat_variable){.type = CAT_VAR_BUF_STRING, .data = B_sval, .data_size = sizeof B_sval, .access = CAT_VAR_ACCESS_READ_WRITE};
        static const char *nm[6] = {"QA", "QB", "QC", "QDD", "QE", "QS"};
        for (int i = 0; i < 6; i++) B_cmds[i] = (struct cat_command){.name = nm[i], .run = B_run, .var = (i == 2 || i == 4) ? &B_var : i == 5 ? &B_svar : NULL, .var_num = (i == 2 || i >= 4) ? 1 : 0};
        B_g0 = (struct cat_command_group){.cmd = &B_cmds[0], .cmd_num = 2};
        B_g1 = (struct cat_command_group){.cmd = &B_cmds[2], .cmd_num = 4};
        B_groups[0] = &B_g0; B_groups[1] = &B_g1;
        B_desc = (struct cat_descriptor){.cmd_group = B_groups, .cmd_group_num = 2, .buf = B_buf, .buf_size = sizeof B_buf};
        B_pos = 0; B_val = 0; B_gate = 0; memset(B_sval, 0, sizeof B_sval);
        cat_init(&B_obj, &B_desc, &B_io, &B_mx);
}

static void interfere_tick(void)
{
        if (W.interfere == 2) {
                /* B receives, processes and answers one whole line between two calls of the object under test */
                B_gate = 1;
                int quiet = 0;
                for (int k = 0; k < 4000 && quiet < 2; k++) quiet = (cat_service(&B_obj) == CAT_STATUS_OK && !B_gate) ? quiet + 1 : 0;
                if (quiet < 2) mcx_fatal("interferer did not finish its line");
        } else {
                cat_service(&B_obj);
        }
        (void)cat_search_command_by_name(&B_obj, "QE");
}

/* ------------------------------------------------------------------ */
/* API wrappers with mutex oracle                                       */

static void api_enter(void)
{
        memset(&L, 0, sizeof L);
        I.api_hash_valid = 0; I.unlock_hash_valid = 0;
        if (W.use_mutex && (W.mon & P_C16)) { I.api_hash = w_lib_hash(); I.api_hash_valid = 1; }
        I.depth = 0;
}

/* returns 1 if the call was aborted by a lock fault (nothing may have happened) */
static int api_leave(const char *name, int ret)
{
        if (!W.use_mutex) return 0;
        I.api_hash_valid = 0;
        if (L.lock_failed) {
                if (ret != CAT_STATUS_ERROR_MUTEX_LOCK)
                        VIOL(P_C16, "C16: %s returned %d after lock() failed (want ERROR_MUTEX_LOCK)", name, ret);
                if (L.reads_attempted || L.writes_attempted || L.handler_calls || L.var_calls || L.unlocks)
                        VIOL(P_C16, "C16: %s invoked callbacks or unlock after lock() failed", name);
                if ((W.mon & P_C16) && w_lib_hash() != I.api_hash)
                        VIOL(P_C16, "C16: %s changed parser state although lock() failed", name);
                return 1;
        }
        if (L.locks != 1 || L.unlocks != 1)
                VIOL(P_C16, "C16: %s made %d lock and %d unlock calls (want exactly one each)", name, L.locks, L.unlocks);
        if (I.depth != 0)
                VIOL(P_C16, "C16: %s returned with the lock still held", name);
        if ((W.mon & P_C16) && I.unlock_hash_valid && w_lib_hash() != I.unlock_hash)
                VIOL(P_C16, "C16: %s changed parser state after unlock()", name);
        if (L.unlock_failed && ret != CAT_STATUS_ERROR_MUTEX_UNLOCK)
                VIOL(P_C16, "C16: %s returned %d after unlock() failed (want ERROR_MUTEX_UNLOCK)", name, ret);
        if (!L.unlock_failed && (ret == CAT_STATUS_ERROR_MUTEX_UNLOCK || ret == CAT_STATUS_ERROR_MUTEX_LOCK))
                VIOL(P_C16, "C16: %s returned mutex error %d without a mutex fault", name, ret);
        return 0;
}

static void post_call_checks(void)
{
        if (W.mon & P_C03) {
                WS.canary_checks++;
                int b = canaries_ok();
                if (b >= 0) VIOL(P_C03, "C03: canary around memory block %d damaged (out-of-bounds write)", b);
                if (w_san_error) { w_san_error = 0; mcx_skip_confirm = 1; VIOL(P_C03, "C03: sanitizer (ASan/UBSan) reported an error during this call"); }
        }
        mon_ro_check();
}

void do_trigger(int ev, int nested)
{
        struct calllog keep = L;
        int kd = I.depth;
        I.S->last_svc_ok = 0;
        if (!nested) api_enter();
        int keepf = W.mutex_faults;
        if (mon_trigger_ambiguous()) W.mutex_faults = 0;   /* a masked return value would leave the outcome undetermined */
        /* all three trigger entry points are exercised: the typed wrappers for even event indices, the generic one for odd */
        cat_status s;
        if (ev & 1) s = cat_trigger_unsolicited_event(I.obj, &I.cmds[W.ev[ev].cmd], W.ev[ev].type);
        else if (W.ev[ev].type == CAT_CMD_TYPE_READ) s = cat_trigger_unsolicited_read(I.obj, &I.cmds[W.ev[ev].cmd]);
        else s = cat_trigger_unsolicited_test(I.obj, &I.cmds[W.ev[ev].cmd]);
        I.last_ret = s;
        W.mutex_faults = keepf;
        if (!nested) { if (api_leave("cat_trigger_unsolicited_*", s)) return; if (L.unlock_failed) s = CAT_STATUS_OK - 100; }
        else { L = keep; I.depth = kd; }
        if (s == CAT_STATUS_OK - 100) {
                /* unlock failed: the return value is masked; the outcome is determined (see above), ask the specification */
                uint64_t before = WS.ev_accepted;
                mon_trigger_unknown(ev);
                if (W.trig_budget && WS.ev_accepted != before && I.S->trig_left > 0) I.S->trig_left--;
                return;
        }
        if (W.trig_budget && s == CAT_STATUS_OK && I.S->trig_left > 0) I.S->trig_left--;
        mon_trigger(ev, s);
}

void do_hold_exit(cat_status st, int nested)
{
        struct calllog keep = L;
        int kd = I.depth;
        if (!nested) api_enter();
        cat_status s = cat_hold_exit(I.obj, st);
        I.last_ret = s;
        if (!nested) { if (api_leave("cat_hold_exit", s)) return; }
        else { L = keep; I.depth = kd; }
        mon_hold_exit(st == CAT_STATUS_OK ? 1 : 2, s, (!nested && L.unlock_failed));
}

/* ------------------------------------------------------------------ */
/* the model: actions                                                   */

struct act { uint8_t kind, arg; };
static int enum_actions(struct act *out)
{
        int n = 0;
        out[n++] = (struct act){A_SERVICE, 0};
        if (W.act_trigger && (W.trig_budget == 0 || I.S->trig_left > 0))
                for (int e = 0; e < W.nev; e++) out[n++] = (struct act){A_TRIGGER, (uint8_t)e};
        if (W.act_hold_exit) {
                out[n++] = (struct act){A_HOLD_EXIT_OK, 0};
                out[n++] = (struct act){A_HOLD_EXIT_ERR, 0};
        }
        if (W.act_queries && W.use_mutex) {
                out[n++] = (struct act){A_Q_BUSY, 0};
                out[n++] = (struct act){A_Q_HOLD, 0};
        }
        if (W.act_queries) {
                out[n++] = (struct act){A_Q_FULL, 0};
                for (int e = 0; e < W.nev; e++) {
                        out[n++] = (struct act){A_Q_BUFFERED, (uint8_t)e};
                        out[n++] = (struct act){A_Q_BUFFERED_ANY, (uint8_t)e};
                }
                out[n++] = (struct act){A_Q_PROCESSED, 0};
        }
        if (W.act_flags && mon_at_line_boundary() && (W.flag_budget == 0 || I.S->flag_left > 0)) {
                for (int c = 0; c < I.nreg; c++) out[n++] = (struct act){A_FLAG_CMD, (uint8_t)c};
                for (int g = 0; g < W.ngrp; g++) out[n++] = (struct act){A_FLAG_GRP, (uint8_t)g};
        }
        if (W.act_reinit && I.S->reinit_left > 0) out[n++] = (struct act){A_REINIT, 0};
        return n;
}

static int m_n_actions(void)
{
        struct act a[64];
        return enum_actions(a);
}

static void busy_hold_probe(void);

static int do_service(void)
{
        uint64_t pre = 0;
        int want_stutter = (W.mon & (P_C12 | P_C15)) != 0;
        if (want_stutter) pre = w_lib_hash();
        int was_ok = I.S->last_svc_ok;
        int evt_idle_pre = mon_evt_idle();
        /* C03: in a shared buffer each half belongs to one machine; an idle machine's half must not change */
        uint64_t half_c = 0, half_e = 0;
        int cmd_idle_pre = mon_at_line_boundary();
        int halves = W.shared && (W.mon & P_C03);
        if (halves) {
                half_c = mcx_hash_bytes(I.buf, (size_t)(W.buf_size / 2), 21).a;
                half_e = mcx_hash_bytes(I.buf + W.buf_size / 2, (size_t)(W.buf_size - W.buf_size / 2), 22).a;
        }
        if (W.interfere) interfere_tick();
        api_enter();
        mon_service_begin();
        cat_status s = cat_service(I.obj);
        I.last_ret = s;
        if (api_leave("cat_service", s)) { post_call_checks(); return 0; }
        int status_known = !L.unlock_failed;
        int activity = L.reads_delivered || L.writes_accepted || L.handler_calls || L.var_calls;
        mon_service_end(s, status_known);
        if (status_known && s != CAT_STATUS_OK && s != CAT_STATUS_BUSY)
                VIOL(P_C15 | P_C01, "cat_service returned unexpected status %d", s);
        /* C15 safety: OK is stable without new stimulus */
        if (was_ok && status_known) {
                WS.ok_repeat_checked++;
                if (!L.reads_delivered && !L.io_triggered) {
                        if (L.writes_attempted || L.handler_calls || L.var_calls)
                                VIOL(P_C15, "C15: cat_service had returned OK, yet the next call without new stimulus emitted output or invoked callbacks");
                        else if (s != CAT_STATUS_OK)
                                VIOL(P_C15, "C15: cat_service had returned OK, yet the next call without new stimulus returned %d", s);
                        else if (want_stutter && w_lib_hash() != pre)
                                L.ok_state_changed = 1;         /* not a violation in itself (C15 speaks of output, callbacks and the status): followed up by idle_probe() */
                }
        }
        /* C12 premise: a call that only met refusals changes nothing */
        if ((W.mon & P_C12) && !W.scribble && !activity && !L.io_triggered && (L.reads_refused || L.writes_refused) && evt_idle_pre && !mon_hold_pending()) {
                WS.stutters_checked++;
                if (w_lib_hash() != pre)
                        VIOL(P_C12, "C12: a cat_service call in which io only refused (read refused %d, write refused %d) changed parser state",
                             L.reads_refused, L.writes_refused);
        }
        if (halves) {
                if (evt_idle_pre && !L.handler_calls && mcx_hash_bytes(I.buf + W.buf_size / 2, (size_t)(W.buf_size - W.buf_size / 2), 22).a != half_e)
                        VIOL(P_C03, "C03: the unsolicited half of the shared buffer changed although no event was pending");
                if (cmd_idle_pre && !L.reads_delivered && mcx_hash_bytes(I.buf, (size_t)(W.buf_size / 2), 21).a != half_c)
                        VIOL(P_C03, "C03: the command half of the shared buffer changed although no command line was in progress");
        }
        I.S->last_svc_ok = (status_known && s == CAT_STATUS_OK) ? 1 : 0;
        if (!status_known) I.S->last_svc_ok = 0;
        post_call_checks();
        if (W.mon & (P_C18 | P_C14)) busy_hold_probe();
        return 0;
}

/* pure queries made after every service call (they do not change state) */
static void busy_hold_probe(void)
{
        int kd = I.depth;
        struct calllog keep = L;
        int faults = W.mutex_faults;
        W.mutex_faults = 0;
        int ah = I.api_hash_valid; I.api_hash_valid = 0;
        cat_status b = cat_is_busy(I.obj);
        cat_status h = cat_is_hold(I.obj);
        W.mutex_faults = faults;
        I.api_hash_valid = ah;
        L = keep; I.depth = kd;
        mon_busy_answer(b);
        mon_hold_answer(h);
}

/* Unbounded refusal runs are covered by state matching as long as a call that met only refusals leaves the parser where it
 * was.  Where such a call does change parser state (legitimately: the other machine made internal progress; or not: a
 * retry counter, a timeout), the all-refusing continuation is followed from there as a side exploration, with every
 * monitor active, until the state stops changing; the explorer then continues from the state before the probe. */
static void refusal_run_probe(void)
{
        static uint8_t *snap; static size_t snap_n;
        size_t need = mcx_state_size();
        if (snap_n < need) { snap = realloc(snap, need); snap_n = need; if (!snap) mcx_fatal("oom probe"); }
        mcx_save(snap);
        struct calllog keepL = L;
        int keep_out = I.out_n, keep_raw = I.raw_n, keep_ret = I.last_ret;
        WS.refusal_probes++;
        w_force_refuse = 1;
        uint64_t h = w_lib_hash();
        for (int k = 0; k < 70000 && !mcx_violated(); k++) {
                do_service();
                WS.refusal_probe_calls++;
                uint64_t h2 = w_lib_hash();
                if (h2 == h && !L.handler_calls && !L.var_calls) break;
                h = h2;
        }
        w_force_refuse = 0;
        if (mcx_violated()) return;
        mcx_restore(snap);
        L = keepL; I.out_n = keep_out; I.raw_n = keep_raw; I.last_ret = keep_ret;
}

/* C15: once cat_service has returned OK, repeated calls without new stimulus emit nothing, invoke nothing and return OK.
 * Where such a call nevertheless changes parser state (a counter, a timer), the no-stimulus continuation is followed for up
 * to 70000 calls as a side exploration: every one of them is again checked by the OK-stable monitor in do_service(). */
static void idle_probe(void)
{
        static uint8_t *snap; static size_t snap_n;
        size_t need = mcx_state_size();
        if (snap_n < need) { snap = realloc(snap, need); snap_n = need; if (!snap) mcx_fatal("oom probe"); }
        mcx_save(snap);
        struct calllog keepL = L;
        int keep_out = I.out_n, keep_raw = I.raw_n, keep_ret = I.last_ret;
        WS.refusal_probes++;
        w_force_refuse = 2;
        for (int k = 0; k < 70000 && !mcx_violated(); k++) {
                do_service();
                WS.refusal_probe_calls++;
                if (!L.ok_state_changed) break;
        }
        w_force_refuse = 0;
        if (mcx_violated()) return;
        mcx_restore(snap);
        L = keepL; I.out_n = keep_out; I.raw_n = keep_raw; I.last_ret = keep_ret;
}

static int m_step(int action)
{
        struct act a[64];
        int n = enum_actions(a);
        if (action >= n) mcx_fatal("action %d out of range %d", action, n);
        struct act x = a[action];
        WS.api_calls[x.kind]++;
        switch (x.kind) {
        case A_SERVICE: {
                uint64_t h0 = W.refusal_probe ? w_lib_hash() : 0;
                int r = do_service();
                if (W.refusal_probe && !mcx_violated() && !L.reads_delivered && !L.writes_accepted && !L.handler_calls && !L.var_calls && !L.lock_failed && !L.io_triggered
                    && (L.reads_refused || L.writes_refused) && w_lib_hash() != h0)
                        refusal_run_probe();
                if (L.ok_state_changed && !mcx_violated()) idle_probe();
                return r;
        }
        case A_TRIGGER:
                I.S->last_svc_ok = 0;
                do_trigger(x.arg, 0);
                break;
        case A_HOLD_EXIT_OK:
        case A_HOLD_EXIT_ERR: {
                uint64_t pre = w_lib_hash();
                int held = mon_hold_phase();
                do_hold_exit(x.kind == A_HOLD_EXIT_OK ? CAT_STATUS_OK : CAT_STATUS_ERROR, 0);
                if (held == 0 && w_lib_hash() != pre && !L.lock_failed)
                        VIOL(P_C14, "C14: cat_hold_exit outside a hold changed parser state");
                if (held != 0) I.S->last_svc_ok = 0;
                break;
        }
        case A_Q_BUSY: {
                api_enter();
                cat_status s = cat_is_busy(I.obj);
                I.last_ret = s;
                if (api_leave("cat_is_busy", s)) break;
                if (!L.unlock_failed) mon_busy_answer(s);
                break;
        }
        case A_Q_HOLD: {
                api_enter();
                cat_status s = cat_is_hold(I.obj);
                I.last_ret = s;
                if (api_leave("cat_is_hold", s)) break;
                if (!L.unlock_failed) mon_hold_answer(s);
                break;
        }
        case A_Q_FULL: {
                api_enter();
                cat_status s = cat_is_unsolicited_buffer_full(I.obj);
                if (api_leave("cat_is_unsolicited_buffer_full", s)) break;
                if (!L.unlock_failed) mon_q_full(s);
                break;
        }
        case A_Q_BUFFERED:
        case A_Q_BUFFERED_ANY: {
                uint64_t pre = w_lib_hash();
                cat_cmd_type t = (x.kind == A_Q_BUFFERED) ? W.ev[x.arg].type : CAT_CMD_TYPE_NONE;
                cat_status s = cat_is_unsolicited_event_buffered(I.obj, &I.cmds[W.ev[x.arg].cmd], t);
                (void)pre;      /* C13 does not say that the query leaves the object untouched (a cache would be legal): its answer is what is checked */
                mon_q_buffered(x.arg, x.kind == A_Q_BUFFERED_ANY, s);
                break;
        }
        case A_Q_PROCESSED: {
                const struct cat_command *c = cat_get_processed_command(I.obj, CAT_FSM_TYPE_UNSOLICITED);
                mon_q_processed(c ? (int)(c - I.cmds) : -1);
                break;
        }
        case A_FLAG_CMD:
                I.cmds[x.arg].disable = !I.cmds[x.arg].disable;
                if (I.S->flag_left) I.S->flag_left--;
                WS.flag_flips++;
                break;
        case A_FLAG_GRP:
                I.groups[x.arg].disable = !I.groups[x.arg].disable;
                if (I.S->flag_left) I.S->flag_left--;
                WS.flag_flips++;
                break;
        case A_REINIT:
                /* cat_init on a used object: everything in flight (partial line, owed responses, queued events, a hold) is
                 * dropped; the bytes that follow are a new line for parser and reference alike; variable values stay */
                cat_init(I.obj, I.desc, &io_if, W.use_mutex ? &mx_if : NULL);
                mon_init();
                /* a WRITE in flight is cut between two variables: what has been stored so far stays, the rest is never stored */
                for (int c = 0; c < W.ncmd; c++)
                        for (int v = 0; v < W.cmd[c].nvar; v++)
                                memcpy(w_shadow(c, v), I.vardata[I.varoff[c] + v], W.cmd[c].var[v].size);
                memset(I.line, 0, (size_t)W.line_max);
                I.S->reinit_left--;
                I.S->last_svc_ok = 0;
                WS.reinits++;
                break;
        default:
                mcx_fatal("bad action kind");
        }
        post_call_checks();
        return 0;
}

static void m_describe(int action, char *out, size_t n)
{
        struct act a[64];
        int k = enum_actions(a);
        if (action >= k) { snprintf(out, n, "?"); return; }
        static const char *names[] = {"cat_service", "trigger", "hold_exit(OK)", "hold_exit(ERROR)", "is_busy", "is_hold", "is_buffer_full",
                                      "is_event_buffered", "is_event_buffered(any type)", "get_processed_command(UNSOLICITED)", "toggle cmd.disable", "toggle group.disable", "cat_init (again)"};
        snprintf(out, n, "%s %d", names[a[action].kind], a[action].arg);
}

void w_sample(const char *fmt, ...)
{
        if (WS.nsamples >= 6) return;
        va_list ap;
        va_start(ap, fmt);
        vsnprintf(WS.samples[WS.nsamples++], sizeof WS.samples[0], fmt, ap);
        va_end(ap);
}

void w_esc(char *out, size_t n, const uint8_t *b, int len)
{
        size_t o = 0;
        for (int i = 0; i < len && o + 6 < n; i++) {
                if (b[i] == '\n') o += (size_t)snprintf(out + o, n - o, "\\n");
                else if (b[i] == '\r') o += (size_t)snprintf(out + o, n - o, "\\r");
                else if (b[i] < 32 || b[i] > 126) o += (size_t)snprintf(out + o, n - o, "\\x%02x", b[i]);
                else out[o++] = (char)b[i];
        }
        if (o < n) out[o] = 0;
}

static void m_describe_result(char *out, size_t n)
{
        char in[64], ou[300];
        w_esc(in, sizeof in, L.in, L.in_n);
        w_esc(ou, sizeof ou, L.out, L.out_n);
        snprintf(out, n, "ret=%d in='%s' out='%s' rd_refused=%d wr_refused=%d handlers=%d varcbs=%d%s%s", I.last_ret, in, ou, L.reads_refused, L.writes_refused,
                 L.handler_calls, L.var_calls, L.lock_failed ? " LOCK-FAILED" : "", L.unlock_failed ? " UNLOCK-FAILED" : "");
}

/* ---- liveness (C15): edges of the quiet eager continuation ---- */
struct ledge { mcx_hash_t pre, post; uint8_t flags; };   /* flags: 1 terminal (returned OK), 2 exempt (unreleased hold) */
static struct ledge *ltab; static uint64_t lcap, lcount;
int w_liveness;

static struct ledge *l_find(mcx_hash_t h, int insert)
{
        if (!ltab) { lcap = 1 << 16; ltab = calloc(lcap, sizeof *ltab); }
        if (insert && (lcount + 1) * 10 > lcap * 7) {
                struct ledge *old = ltab; uint64_t oc = lcap;
                lcap <<= 1; ltab = calloc(lcap, sizeof *ltab); lcount = 0;
                if (!ltab) mcx_fatal("oom liveness table");
                for (uint64_t i = 0; i < oc; i++) if (old[i].pre.a || old[i].pre.b) *l_find(old[i].pre, 1) = old[i];
                free(old);
        }
        if (h.a == 0 && h.b == 0) h.b = 1;
        uint64_t i = h.a & (lcap - 1);
        for (;;) {
                if (ltab[i].pre.a == 0 && ltab[i].pre.b == 0) {
                        if (!insert) return NULL;
                        ltab[i].pre = h; lcount++;
                        return &ltab[i];
                }
                if (ltab[i].pre.a == h.a && ltab[i].pre.b == h.b) return &ltab[i];
                i = (i + 1) & (lcap - 1);
        }
}

static void m_on_transition(int action, const struct mcx_choices *c, mcx_hash_t pre, mcx_hash_t post)
{
        (void)c;
        if (!w_liveness) return;
        struct act a[64];
        /* the action list is state dependent but action 0 is always cat_service */
        (void)a;
        if (action != 0) return;
        if (L.reads_delivered || L.writes_refused || L.nonquiet || L.lock_failed || L.unlock_failed) return;
        struct ledge *e = l_find(pre, 1);
        e->post = post;
        e->flags = 0;
        if (I.last_ret == CAT_STATUS_OK) e->flags |= 1;
        if (mon_hold_phase() == 1) e->flags |= 2;
}

/* returns max distance to quiescence; -1 livelock; -2 missing edge */
long world_liveness_check(uint64_t *nodes, mcx_hash_t *witness)
{
        long maxd = 0;
        *nodes = lcount;
        if (!ltab) return 0;
        int32_t *dist = malloc(sizeof(int32_t) * lcap);
        for (uint64_t i = 0; i < lcap; i++) dist[i] = -1;
        uint64_t *stack = malloc(sizeof(uint64_t) * 100000);
        for (uint64_t i = 0; i < lcap; i++) {
                if (!(ltab[i].pre.a || ltab[i].pre.b) || dist[i] >= 0) continue;
                uint64_t sp = 0, cur = i;
                for (;;) {
                        if (dist[cur] >= 0) break;
                        if (ltab[cur].flags & 3) { dist[cur] = 0; break; }
                        if (dist[cur] == -2 || sp >= 99999) { *witness = ltab[cur].pre; free(dist); free(stack); return -1; }
                        dist[cur] = -2;
                        stack[sp++] = cur;
                        struct ledge *n = l_find(ltab[cur].post, 0);
                        if (!n) { *witness = ltab[cur].post; free(dist); free(stack); return -2; }
                        cur = (uint64_t)(n - ltab);
                }
                long d = dist[cur];
                while (sp > 0) { d++; dist[stack[--sp]] = (int32_t)d; }
                if (d > maxd) maxd = d;
        }
        free(dist); free(stack);
        return maxd;
}

const struct mcx_model world_model = {
        .on_transition = m_on_transition,
        .describe_result = m_describe_result,
        .init = world_init,
        .n_actions = m_n_actions,
        .step = m_step,
        .describe = m_describe,
};

/* ------------------------------------------------------------------ */
/* eager driver for sweeps                                              */

int world_run_bytes(const uint8_t *bytes, int n)
{
        w_feed = bytes; w_feed_n = n; w_feed_pos = 0;
        int calls = 0;
        long limit = 200 + 16L * n + 8L * (I.nreg + 2) * (n + 2) + 2000 + 64L * W.max_inv * 4;
        for (;;) {
                do_service();
                calls++;
                if (mcx_violated()) break;
                if (I.S->last_svc_ok && w_feed_pos >= w_feed_n) break;
                if (mon_hold_phase() == 1 && w_feed_pos <= w_feed_n && calls > 4 && !L.reads_delivered && !L.writes_accepted && !L.handler_calls) {
                        /* unreleased hold: stop, caller decides */
                        break;
                }
                if (calls > limit) { VIOL(P_C15 | P_C01, "C15: no quiescence after %d cat_service calls for a %d byte input", calls, n); break; }
        }
        return calls;
}

/* re-run recorded lines eagerly on a fresh parser so that evidence samples show real input/output pairs */
void world_resolve_samples(void)
{
        int keep_rr = W.refuse_read, keep_rw = W.refuse_write, keep_mf = W.mutex_faults;
        W.refuse_read = W.refuse_write = W.mutex_faults = 0;
        for (int k = 0; k < WS.nsample_lines; k++) {
                world_init();
                mcx_violation_clear();
                uint64_t ld = WS.lines_done;
                world_run_bytes(WS.sample_line[k], WS.sample_len[k]);
                WS.lines_done = ld;
                char a[300], b[300];
                w_esc(a, sizeof a, WS.sample_line[k], WS.sample_len[k]);
                w_esc(b, sizeof b, (const uint8_t *)w_output(), w_output_len());
                w_sample("line '%s' -> output '%s'%s", a, b, mcx_violated() ? " (VIOLATION)" : " (agrees with reference model)");
                mcx_violation_clear();
        }
        w_feed = NULL;
        W.refuse_read = keep_rr; W.refuse_write = keep_rw; W.mutex_faults = keep_mf;
}

void world_config_header(char *out, size_t n)
{
        char tb[4096];
        table_print(&W, tb, sizeof tb);
        snprintf(out, n, "cfg table %s\ncfg cap %d shared %d buf_size %d ubuf_size %d ring %d mutex %d faults %d\n", tb, W.cap, W.shared, W.buf_size,
                 W.ubuf_size, (int)CAT_UNSOLICITED_CMD_BUFFER_SIZE, W.use_mutex, W.mutex_faults);
}
