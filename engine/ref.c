/* Line-level reference model, written from the property statements
 * (properties.jsonl C01, C02, C04-C10, C19, C20) and cat.h, not from cat.c.
 * It is incremental: it blocks where the library must call back into the
 * application (variable callbacks, command handlers) and resumes with the
 * answer the explorer chose. */
#include "wint.h"
#include <string.h>
#include <stdio.h>

struct mon *M;

#define RM(evt) ((evt) ? &M->e : &M->c)
#define RF(evt) ((evt) ? &M->fe : &M->fc)
#define RCAP(evt) ((evt) ? I.ucap : I.cap)

static char up(char c) { return (c >= 'a' && c <= 'z') ? (char)(c - 32) : c; }

static int valid_name_char(uint8_t c)
{
        return (c >= 'A' && c <= 'Z') || (c >= '0' && c <= '9') || c == '+' || c == '#' || c == '$' || c == '@' || c == '_' || c == '%' || c == '&';
}

int cmd_enabled(int i)
{
        if (!W.cmd[i].registered) return 0;
        if (I.cmds[i].disable) return 0;
        if (I.groups[W.cmd[i].group].disable) return 0;
        return 1;
}

static int name_eq(const char *cmdname, const uint8_t *typed, int n)
{
        if ((int)strlen(cmdname) != n) return 0;
        for (int i = 0; i < n; i++) if (up(cmdname[i]) != (char)typed[i]) return 0;
        return 1;
}
static int name_prefix(const char *cmdname, const uint8_t *typed, int n)
{
        if ((int)strlen(cmdname) <= n) return 0;
        for (int i = 0; i < n; i++) if (up(cmdname[i]) != (char)typed[i]) return 0;
        return 1;
}

/* C02: exact match first (registration order), else unique proper-prefix match */
static int resolve(const uint8_t *typed, int n, int *why)
{
        for (int i = 0; i < W.ncmd; i++)
                if (cmd_enabled(i) && name_eq(W.cmd[i].name, typed, n)) { *why = 0; return i; }
        int found = -1, cnt = 0;
        for (int i = 0; i < W.ncmd; i++)
                if (cmd_enabled(i) && name_prefix(W.cmd[i].name, typed, n)) { cnt++; if (found < 0) found = i; }
        if (cnt == 1) { *why = 1; return found; }
        *why = cnt ? 3 : 2;
        return -1;
}

static int has_access(int c, cat_var_access a)
{
        for (int v = 0; v < W.cmd[c].nvar; v++)
                if (W.cmd[c].var[v].access == CAT_VAR_ACCESS_READ_WRITE || W.cmd[c].var[v].access == a) return 1;
        return 0;
}

/* ---------- result / units ---------- */

static void push_result(int evt, int ok)
{
        struct refm *r = RM(evt);
        if (!evt) {
                uint8_t b[2] = {(uint8_t)(ok ? 1 : 2), r->crlf};
                fifo_push(&M->fc, K_RESULT, b, 2);
                if (ok) WS.lines_ok++; else WS.lines_err++;
        }
        r->phase = R_FINAL;
}
static void finish_ok(int evt) { push_result(evt, 1); }
static void finish_error(int evt) { push_result(evt, 0); }

static void push_text_unit(int evt, const uint8_t *text, int n)
{
        uint8_t u[W_TEXT + 8];
        int k = 0;
        struct refm *r = RM(evt);
        if (evt) {
                u[k++] = NLMARK; memcpy(u + k, text, (size_t)n); k += n; u[k++] = NLMARK;
                fifo_push(&M->fe, K_FLEX, u, k);
        } else {
                if (r->crlf) u[k++] = '\r';
                u[k++] = '\n';
                memcpy(u + k, text, (size_t)n); k += n;
                if (r->crlf) u[k++] = '\r';
                u[k++] = '\n';
                fifo_push(&M->fc, K_EXACT, u, k);
        }
}

static int form_offered(int c, int form)
{
        const struct wcmd *w = &W.cmd[c];
        switch (form) {
        case 0: return (w->hmask & HM_U) != 0;
        case 1: return (w->hmask & HM_R) || has_access(c, CAT_VAR_ACCESS_READ_ONLY);
        case 2: return (w->hmask & HM_W) || has_access(c, CAT_VAR_ACCESS_WRITE_ONLY);
        default: return (w->hmask & HM_T) || w->nvar > 0;
        }
}

/* C19: command list */
static void push_cmd_list(void)
{
        struct refm *r = &M->c;
        static const char *suffix[4] = {"", "?", "=", "=?"};
        for (int i = 0; i < W.ncmd; i++) {
                if (!cmd_enabled(i)) continue;
                int first = 1;
                for (int form = W.cmd[i].only_test ? 3 : 0; form < 4; form++) {
                        if (!form_offered(i, form)) continue;
                        uint8_t u[W_TEXT];
                        int k = 0;
                        if (first) { if (r->crlf) u[k++] = '\r'; u[k++] = '\n'; }
                        k += snprintf((char *)u + k, sizeof u - (size_t)k - 4, "AT%s%s", W.cmd[i].name, suffix[form]);
                        if (r->crlf) u[k++] = '\r';
                        u[k++] = '\n';
                        if (k > I.cap - 1) { finish_error(0); return; }
                        fifo_push(&M->fc, K_EXACT, u, k);
                        WS.list_lines++;
                        first = 0;
                }
        }
        finish_ok(0);
}

/* ---------- text building (fit rule: the text plus its NUL must fit) ---------- */

static int text_add(int evt, const void *s, int n)
{
        struct refm *r = RM(evt);
        if (r->text_len + n > RCAP(evt) - 1) return -1;
        if (r->text_len + n > W_TEXT) mcx_fatal("W_TEXT too small");
        memcpy(r->text + r->text_len, s, (size_t)n);
        r->text_len = (uint16_t)(r->text_len + n);
        return 0;
}
static int text_adds(int evt, const char *s) { return text_add(evt, s, (int)strlen(s)); }

/* ---------- formatting a variable value (C07, C08) ---------- */

static int format_var(int evt, int c, int v)
{
        const struct wvar *wv = &W.cmd[c].var[v];
        const uint8_t *d = w_shadow(c, v);
        char tmp[160];
        int wo = wv->access == CAT_VAR_ACCESS_WRITE_ONLY;
        switch (wv->type) {
        case CAT_VAR_INT_DEC: {
                long long x;
                if (wv->size == 1) x = (int8_t)d[0];
                else if (wv->size == 2) { int16_t t; memcpy(&t, d, 2); x = t; }
                else if (wv->size == 4) { int32_t t; memcpy(&t, d, 4); x = t; }
                else return -1;
                if (wo) x = 0;
                snprintf(tmp, sizeof tmp, "%lld", x);
                return text_adds(evt, tmp);
        }
        case CAT_VAR_UINT_DEC:
        case CAT_VAR_NUM_HEX: {
                unsigned long long x;
                if (wv->size == 1) x = d[0];
                else if (wv->size == 2) { uint16_t t; memcpy(&t, d, 2); x = t; }
                else if (wv->size == 4) { uint32_t t; memcpy(&t, d, 4); x = t; }
                else return -1;
                if (wo) x = 0;
                if (wv->type == CAT_VAR_UINT_DEC) snprintf(tmp, sizeof tmp, "%llu", x);
                else snprintf(tmp, sizeof tmp, "0x%0*llX", wv->size * 2, x);
                return text_adds(evt, tmp);
        }
        case CAT_VAR_BUF_HEX:
                for (int i = 0; i < wv->size; i++) {
                        snprintf(tmp, sizeof tmp, "%02X", wo ? 0 : d[i]);
                        if (text_add(evt, tmp, 2)) return -1;
                }
                return 0;
        case CAT_VAR_BUF_STRING: {
                if (text_adds(evt, "\"")) return -1;
                for (int i = 0; !wo && i < wv->size && d[i]; i++) {
                        int rc;
                        if (d[i] == '\\') rc = text_adds(evt, "\\\\");
                        else if (d[i] == '"') rc = text_adds(evt, "\\\"");
                        else if (d[i] == '\n') rc = text_adds(evt, "\\n");
                        else rc = text_add(evt, &d[i], 1);
                        if (rc) return -1;
                }
                return text_adds(evt, "\"");
        }
        }
        return -1;
}

static int format_test_var(int evt, int c, int v)
{
        const struct wvar *wv = &W.cmd[c].var[v];
        char ty[16];
        const char *acc = wv->access == CAT_VAR_ACCESS_READ_WRITE ? "RW" : wv->access == CAT_VAR_ACCESS_READ_ONLY ? "RO" : "WO";
        switch (wv->type) {
        case CAT_VAR_INT_DEC: case CAT_VAR_UINT_DEC: case CAT_VAR_NUM_HEX:
                if (wv->size != 1 && wv->size != 2 && wv->size != 4) return -1;
                snprintf(ty, sizeof ty, "%s%d", wv->type == CAT_VAR_INT_DEC ? "INT" : wv->type == CAT_VAR_UINT_DEC ? "UINT" : "HEX", wv->size * 8);
                break;
        case CAT_VAR_BUF_HEX: strcpy(ty, "HEXBUF"); break;
        case CAT_VAR_BUF_STRING: strcpy(ty, "STRING"); break;
        default: return -1;
        }
        char tmp[64];
        if (wv->has_name) snprintf(tmp, sizeof tmp, "<%s:%s[%s]>", wv->name, ty, acc);
        else snprintf(tmp, sizeof tmp, "<%s[%s]>", ty, acc);
        return text_adds(evt, tmp);
}

/* ---------- parsing an argument text (C04, C05) ---------- */

/* decimal digit string <= bound ?  arbitrary length, no 64-bit accumulation of the input */
static int dec_le(const uint8_t *s, int n, unsigned long long bound, unsigned long long *val)
{
        while (n > 1 && *s == '0') { s++; n--; }
        char b[32];
        int bl = snprintf(b, sizeof b, "%llu", bound);
        if (n > bl) return 0;
        if (n == bl && memcmp(s, b, (size_t)n) > 0) return 0;
        unsigned long long x = 0;
        for (int i = 0; i < n; i++) x = x * 10 + (unsigned)(s[i] - '0');
        *val = x;
        return 1;
}

static int is_hex(uint8_t c) { return (c >= '0' && c <= '9') || (c >= 'a' && c <= 'f') || (c >= 'A' && c <= 'F'); }
static int hexval(uint8_t c) { return c <= '9' ? c - '0' : (c | 32) - 'a' + 10; }

/* returns -1 error, 0 accepted at end of text, 1 accepted at comma */
static int parse_var(struct refm *r, int c, int v, const uint8_t *args, int alen)
{
        const struct wvar *wv = &W.cmd[c].var[v];
        uint8_t *sh = w_shadow(c, v);
        int ro = wv->access == CAT_VAR_ACCESS_READ_ONLY;
        int p = r->arg_pos;
        r->wsize = 0;
        if (wv->type == CAT_VAR_BUF_STRING) {
                uint8_t dec[80];
                int n = 0;
                if (p >= alen || args[p] != '"') return -1;
                p++;
                r->dontcare_var = (uint8_t)(v + 1);   /* from here the content is unspecified if the text is rejected */
                for (;;) {
                        if (p >= alen || args[p] == 0) return -1;
                        uint8_t ch = args[p++];
                        if (ch == '"') break;
                        if (ch == '\\') {
                                if (p >= alen) return -1;
                                uint8_t e = args[p++];
                                if (e == '\\') ch = '\\'; else if (e == '"') ch = '"'; else if (e == 'n') ch = '\n'; else return -1;
                        }
                        if (n >= wv->size) return -1;
                        dec[n++] = ch;
                }
                if (n > wv->size - 1) return -1;
                int term;
                if (p >= alen || args[p] == 0) term = 0; else if (args[p] == ',') term = 1; else return -1;
                p++;
                r->arg_pos = (uint32_t)p;
                r->dontcare_var = 0;
                if (!ro) {
                        /* bytes after the terminator keep their old content */
                        memcpy(sh, dec, (size_t)n); sh[n] = 0; r->wsize = (uint8_t)n;
                        r->dontcare_var = 0;
                }
                return term;
        }
        /* field = up to ',' / NUL / end */
        int e = p;
        while (e < alen && args[e] != ',' && args[e] != 0) e++;
        int term = (e < alen && args[e] == ',') ? 1 : 0;
        const uint8_t *f = args + p;
        int n = e - p;
        switch (wv->type) {
        case CAT_VAR_INT_DEC: {
                int neg = 0, i = 0;
                if (n > 0 && (f[0] == '+' || f[0] == '-')) { neg = f[0] == '-'; i = 1; }
                if (n - i < 1) return -1;
                for (int k = i; k < n; k++) if (f[k] < '0' || f[k] > '9') return -1;
                if (ro) {
                        /* read-only: syntax only; magnitude beyond 64 bits is unspecified, keep it out of the alphabets */
                        break;
                }
                if (wv->size != 1 && wv->size != 2 && wv->size != 4) return -1;
                unsigned long long lim = (1ULL << (8 * wv->size - 1)) - (neg ? 0 : 1), mag;
                if (!dec_le(f + i, n - i, lim, &mag)) return -1;
                long long x = neg ? -(long long)mag : (long long)mag;
                if (wv->size == 1) { int8_t t = (int8_t)x; memcpy(sh, &t, 1); }
                else if (wv->size == 2) { int16_t t = (int16_t)x; memcpy(sh, &t, 2); }
                else { int32_t t = (int32_t)x; memcpy(sh, &t, 4); }
                r->wsize = wv->size;
                break;
        }
        case CAT_VAR_UINT_DEC: {
                if (n < 1) return -1;
                for (int k = 0; k < n; k++) if (f[k] < '0' || f[k] > '9') return -1;
                if (ro) break;
                if (wv->size != 1 && wv->size != 2 && wv->size != 4) return -1;
                unsigned long long lim = wv->size == 4 ? 0xffffffffULL : (1ULL << (8 * wv->size)) - 1, x;
                if (!dec_le(f, n, lim, &x)) return -1;
                if (wv->size == 1) { uint8_t t = (uint8_t)x; memcpy(sh, &t, 1); }
                else if (wv->size == 2) { uint16_t t = (uint16_t)x; memcpy(sh, &t, 2); }
                else { uint32_t t = (uint32_t)x; memcpy(sh, &t, 4); }
                r->wsize = wv->size;
                break;
        }
        case CAT_VAR_NUM_HEX: {
                if (n < 3 || f[0] != '0' || (f[1] != 'x' && f[1] != 'X')) return -1;
                for (int k = 2; k < n; k++) if (!is_hex(f[k])) return -1;
                if (ro) break;
                if (wv->size != 1 && wv->size != 2 && wv->size != 4) return -1;
                const uint8_t *h = f + 2; int hn = n - 2;
                while (hn > 1 && *h == '0') { h++; hn--; }
                if (hn > 2 * wv->size) return -1;
                unsigned long long x = 0;
                for (int k = 0; k < hn; k++) x = x * 16 + (unsigned)hexval(h[k]);
                if (wv->size == 1) { uint8_t t = (uint8_t)x; memcpy(sh, &t, 1); }
                else if (wv->size == 2) { uint16_t t = (uint16_t)x; memcpy(sh, &t, 2); }
                else { uint32_t t = (uint32_t)x; memcpy(sh, &t, 4); }
                r->wsize = wv->size;
                break;
        }
        case CAT_VAR_BUF_HEX: {
                r->dontcare_var = (uint8_t)(v + 1);
                if (n < 2 || (n & 1)) return -1;
                for (int k = 0; k < n; k++) if (!is_hex(f[k])) return -1;
                if (n / 2 > wv->size) return -1;
                r->dontcare_var = 0;
                if (!ro) {
                        for (int k = 0; k < n / 2; k++) sh[k] = (uint8_t)(hexval(f[2 * k]) * 16 + hexval(f[2 * k + 1]));
                        r->wsize = (uint8_t)(n / 2);
                }
                break;
        }
        default: return -1;
        }
        r->arg_pos = (uint32_t)(e + 1);
        return term;
}

/* ---------- the machines ---------- */

static void advance(int evt);

static void begin_read_format(int evt)
{
        struct refm *r = RM(evt);
        int c = r->cmd;
        r->text_len = 0;
        memset(r->text, 0, sizeof r->text);
        if (text_adds(evt, W.cmd[c].name) || text_adds(evt, "=")) { finish_error(evt); return; }
        if (has_access(c, CAT_VAR_ACCESS_READ_ONLY)) {
                r->phase = R_RVAR; r->var_idx = 0;
                r->cb_pending = W.cmd[c].var[0].rcb;
                advance(evt);
                return;
        }
        if (!(W.cmd[c].hmask & HM_R)) { finish_error(evt); return; }
        r->phase = R_HANDLER; r->kind = HK_R;
}

static void begin_test_format(int evt)
{
        struct refm *r = RM(evt);
        int c = r->cmd;
        r->text_len = 0;
        memset(r->text, 0, sizeof r->text);
        if (text_adds(evt, W.cmd[c].name) || text_adds(evt, "=")) { finish_error(evt); return; }
        for (int v = 0; v < W.cmd[c].nvar; v++) {
                if (format_test_var(evt, c, v)) { finish_error(evt); return; }
                if (v + 1 < W.cmd[c].nvar) {
                        if (r->text_len >= RCAP(evt)) { finish_error(evt); return; }
                        r->text[r->text_len++] = ',';
                }
        }
        if (W.cmd[c].has_desc) {
                int rc;
                if (evt) { uint8_t m = NLMARK; rc = text_add(evt, &m, 1); }
                else rc = r->crlf ? text_adds(evt, "\r\n") : text_adds(evt, "\n");
                if (rc || text_adds(evt, W.cmd[c].desc)) { finish_error(evt); return; }
        }
        if (W.cmd[c].hmask & HM_T) { r->phase = R_HANDLER; r->kind = HK_T; return; }
        push_text_unit(evt, r->text, r->text_len);
        finish_ok(evt);
}

static void advance(int evt)
{
        struct refm *r = RM(evt);
        int c = r->cmd;
        while (r->phase == R_RVAR) {
                int v = r->var_idx;
                if (r->cb_pending) return;                 /* blocked on the variable read callback */
                if (format_var(evt, c, v)) { finish_error(evt); return; }
                WS.rvar++;
                if (v + 1 < W.cmd[c].nvar) {
                        if (r->text_len >= RCAP(evt)) { finish_error(evt); return; }
                        r->text[r->text_len++] = ',';
                        r->var_idx++;
                        r->cb_pending = W.cmd[c].var[v + 1].rcb;
                        continue;
                }
                if (W.cmd[c].hmask & HM_R) { r->phase = R_HANDLER; r->kind = HK_R; return; }
                push_text_unit(evt, r->text, r->text_len);
                finish_ok(evt);
                return;
        }
        while (r->phase == R_WVAR) {
                int v = r->var_idx;
                if (r->cb_pending == 1) return;            /* blocked on the variable write callback */
                if (r->cb_pending == 0) {
                        int res = parse_var(r, c, v, I.line + r->args_off, r->args_len);
                        if (res < 0) { WS.wvar_err++; finish_error(0); return; }
                        WS.wvar_ok++;
                        r->term = (uint8_t)res;
                        if (W.cmd[c].var[v].wcb) { r->cb_pending = 1; return; }
                }
                r->cb_pending = 0;
                int parsed = v + 1;
                if (r->term && parsed < W.cmd[c].nvar) { r->var_idx++; continue; }
                if (r->term) { finish_error(0); return; }
                if (W.cmd[c].need_all && parsed != W.cmd[c].nvar) { finish_error(0); return; }
                r->args_num = (uint8_t)parsed;
                if (!(W.cmd[c].hmask & HM_W)) { finish_ok(0); return; }
                r->phase = R_HANDLER; r->kind = HK_W;
                return;
        }
}

/* Would every completion of this line prefix be answered with ERROR?  Used only to
 * forget the bytes of doomed lines (so that states merge); returns a reason code
 * (0 = not doomed, 1 malformed, 2 no such command, 3 ambiguous before '=', 4 over-long). */
int ref_prefix_doomed(const uint8_t *line, int len)
{
        uint8_t s[W_TEXT * 2];
        int n = 0;
        for (int i = 0; i < len && n < (int)sizeof s; i++) if (line[i] != '\r') s[n++] = line[i];
        if (n == 0) return 0;
        if (up((char)s[0]) != 'A') return 1;
        if (n < 2) return 0;
        if (up((char)s[1]) != 'T') return 1;
        uint8_t name[W_TEXT];
        int nl = 0, why = 0;
        for (int i = 2; i < n; i++) {
                uint8_t ch = (uint8_t)up((char)s[i]);
                if (valid_name_char(ch)) {
                        if (nl >= (int)sizeof name) return 0;
                        name[nl++] = ch;
                        for (int k = 0; k < W.ncmd; k++)
                                if (cmd_enabled(k) && W.cmd[k].implicit && name_eq(W.cmd[k].name, name, nl))
                                        return (n - (i + 1) > I.cap - 1) ? 4 : 0;
                        int any = 0;
                        for (int k = 0; k < W.ncmd; k++)
                                if (cmd_enabled(k) && (name_eq(W.cmd[k].name, name, nl) || name_prefix(W.cmd[k].name, name, nl))) any = 1;
                        if (!any) return 2;
                        continue;
                }
                if (ch == '?') {
                        if (nl == 0) return 1;
                        return (i + 1 != n) ? 1 : 0;
                }
                if (ch == '=') {
                        if (nl == 0) return 1;
                        int c = resolve(name, nl, &why);
                        if (c < 0) return why == 3 ? 3 : 2;
                        int alen = n - (i + 1);
                        const struct wcmd *w = &W.cmd[c];
                        if (alen >= 1 && s[i + 1] == '?' && ((w->hmask & HM_T) || w->nvar > 0) && !w->implicit) return alen > 1 ? 1 : 0;
                        return (alen > I.cap - 1) ? 4 : 0;
                }
                return 1;
        }
        return 0;
}

void ref_on_doomed_line(int reason, int crlf)
{
        struct refm *r = &M->c;
        memset(r, 0, sizeof *r);
        r->cmd = -1;
        r->crlf = (uint8_t)crlf;
        WS.lines_done++;
        if (reason == 1) WS.drain_err++; else if (reason == 2) WS.notfound++; else if (reason == 3) WS.ambiguous_eq++; else WS.overlong++;
        finish_error(0);
}

/* classification of one complete line (without its LF) */
void ref_on_line(const uint8_t *line, int len)
{
        struct refm *r = &M->c;
        memset(r, 0, sizeof *r);
        r->cmd = -1;
        r->nonterm_left = (uint32_t)W.max_inv;
        /* strip CRs in place (the line buffer is ours); CR after the first other byte selects CRLF */
        uint8_t *s = I.line;
        int n = 0, seen = 0;
        for (int i = 0; i < len; i++) {
                if (line[i] == '\r') { if (seen) r->crlf = 1; continue; }
                seen = 1;
                s[n++] = line[i];
        }
        for (int i = n; i < len; i++) s[i] = 0;
        r->line_n = (uint32_t)n;
        WS.lines_done++;
        if (n == 0) mcx_fatal("ref_on_line on blank line");
        if (up((char)s[0]) != 'A') { WS.drain_err++; finish_error(0); return; }
        if (n < 2 || up((char)s[1]) != 'T') { WS.drain_err++; finish_error(0); return; }
        uint8_t name[W_TEXT];
        int nl = 0, i = 2, type = CAT_CMD_TYPE_RUN, cmd = -1, why = 0;
        int have_args = 0, resolved = 0;
        for (; i < n; i++) {
                uint8_t ch = (uint8_t)up((char)s[i]);
                if (valid_name_char(ch)) {
                        if (nl >= (int)sizeof name) mcx_fatal("typed name too long for the reference");
                        name[nl++] = ch;
                        /* implicit write: the typed name equals an enabled implicit-write command */
                        int hit = 0;
                        for (int k = 0; k < W.ncmd; k++)
                                if (cmd_enabled(k) && W.cmd[k].implicit && name_eq(W.cmd[k].name, name, nl)) hit = 1;
                        if (hit) {
                                cmd = resolve(name, nl, &why);
                                resolved = 1;
                                type = CAT_CMD_TYPE_WRITE;
                                have_args = 1; i++;
                                WS.implicit_hits++;
                                break;
                        }
                        continue;
                }
                if (ch == '?') {
                        if (nl == 0 || i + 1 != n) { WS.drain_err++; finish_error(0); return; }
                        type = CAT_CMD_TYPE_READ;
                        i = n;
                        break;
                }
                if (ch == '=') {
                        if (nl == 0) { WS.drain_err++; finish_error(0); return; }
                        type = CAT_CMD_TYPE_WRITE;
                        have_args = 1; i++;
                        break;
                }
                WS.drain_err++;
                finish_error(0);
                return;
        }
        if (nl == 0) { finish_ok(0); return; }             /* bare "AT" */
        if (!resolved) cmd = resolve(name, nl, &why);
        if (cmd < 0) {
                if (why == 3) { if (have_args) WS.ambiguous_eq++; else WS.ambiguous_lf++; } else WS.notfound++;
                finish_error(0);
                return;
        }
        r->cmd = (int32_t)cmd;
        const struct wcmd *w = &W.cmd[cmd];
        if (have_args) {
                int alen = n - i;
                if (alen >= 1 && s[i] == '?' && ((w->hmask & HM_T) || w->nvar > 0) && !w->implicit) {
                        if (alen != 1) { WS.drain_err++; finish_error(0); return; }
                        type = CAT_CMD_TYPE_TEST;
                        WS.test_forms++;
                } else {
                        r->args_off = (uint32_t)i; r->args_len = (uint32_t)alen;
                        if (alen > I.cap - 1) { WS.overlong++; finish_error(0); return; }   /* C06: rejected, not cut */
                }
        }
        r->type = (uint8_t)type;
        switch (type) {
        case CAT_CMD_TYPE_RUN:
                if (w->only_test || !(w->hmask & HM_U)) { finish_error(0); return; }
                r->phase = R_HANDLER; r->kind = HK_U;
                return;
        case CAT_CMD_TYPE_READ:
                if (w->only_test) { finish_error(0); return; }
                begin_read_format(0);
                return;
        case CAT_CMD_TYPE_TEST:
                begin_test_format(0);
                return;
        case CAT_CMD_TYPE_WRITE:
                if (w->only_test) { finish_error(0); return; }
                if (has_access(cmd, CAT_VAR_ACCESS_WRITE_ONLY)) {
                        r->phase = R_WVAR; r->var_idx = 0; r->arg_pos = 0; r->cb_pending = 0;
                        advance(0);
                        return;
                }
                if (!(w->hmask & HM_W)) { finish_error(0); return; }
                r->args_num = 0;
                r->phase = R_HANDLER; r->kind = HK_W;
                return;
        }
}

void ref_begin_event(int ev)
{
        struct refm *r = &M->e;
        memset(r, 0, sizeof *r);
        r->cmd = (int32_t)W.ev[ev].cmd;
        r->type = (uint8_t)W.ev[ev].type;
        r->nonterm_left = (uint32_t)W.max_inv;
        if (W.ev[ev].type == CAT_CMD_TYPE_READ) begin_read_format(1);
        else begin_test_format(1);
}

int ref_inv_count(int evt) { return RM(evt)->inv; }

static const char *kind_name(int k) { static const char *n[] = {"write", "read", "run", "test"}; return n[k & 3]; }

int ref_expect_handler(int evt, int kind, int cmd, const uint8_t *data, size_t size, size_t args_num, size_t max, int *nonterm_left)
{
        if (evt) evt_advance();
        struct refm *r = RM(evt);
        unsigned pm = P_C01 | P_C02 | P_C09 | P_C10 | P_C13 | P_C14 | P_C20 | P_C11 | P_C12 | P_C19 | P_C04 | P_C05 | P_C06 | P_C08;
        if ((evt && !M->cur_valid) || r->phase != R_HANDLER || r->kind != kind || r->cmd != cmd) {
                VIOL(pm, "unexpected %s handler call for command '%s' by the %s machine (reference expects %s%s%s)", kind_name(kind), W.cmd[cmd].name,
                     evt ? "event" : "command",
                     (r->phase == R_HANDLER && (!evt || M->cur_valid)) ? kind_name(r->kind) : "no handler call",
                     (r->phase == R_HANDLER && r->cmd >= 0) ? " of " : "", (r->phase == R_HANDLER && r->cmd >= 0) ? W.cmd[r->cmd].name : "");
                return 0;
        }
        if (kind == HK_W) {
                const uint8_t *a = I.line + r->args_off;
                if (size != r->args_len || memcmp(data, a, size) != 0 || data[size] != 0)
                        VIOL(P_C06 | P_C02 | P_C12, "C06: write handler of '%s' got %zu argument bytes, the line carried %d (or content / NUL terminator differs)",
                             W.cmd[cmd].name, size, r->args_len);
                if (args_num != r->args_num)
                        VIOL(P_C06 | P_C04 | P_C05, "C06: write handler of '%s' told args_num=%zu, %d variables were parsed", W.cmd[cmd].name, args_num, r->args_num);
        } else if (kind != HK_U) {
                int okc = evt ? flex_eq(r->text, r->text_len, data, size) : (size == r->text_len && memcmp(data, r->text, size) == 0);
                if (!okc || data[size] != 0)
                        VIOL(P_C06 | P_C10 | P_C07 | P_C08 | P_C19 | P_C11 | P_C12 | P_C03, "C06/C10: %s handler of '%s' (%s machine, invocation %d) did not receive the freshly formatted text "
                             "(got %zu bytes '%.*s', expected %d bytes '%.*s')", kind_name(kind), W.cmd[cmd].name, evt ? "event" : "command", r->inv + 1,
                             size, (int)(size < 60 ? size : 60), (const char *)data, r->text_len, r->text_len, (const char *)r->text);
                /* told more than there is: a handler that keeps within what it is told writes into whatever lies behind the buffer
                 * (the other machine's text), so every property about the output is at stake; told less: only C06's statement */
                if ((int)max != RCAP(evt))
                        VIOL((int)max > RCAP(evt) ? (P_C06 | P_C03 | P_C10 | P_C11 | P_C13 | P_C12 | P_C19) : (P_C06 | P_C03), "C06: %s handler of '%s' told max_data_size=%zu, the buffer holds %d", kind_name(kind), W.cmd[cmd].name, max, RCAP(evt));
        }
        r->inv++;
        *nonterm_left = r->nonterm_left;
        if (evt) evt_observable();
        return 1;
}

static void handler_returned(int evt, int kind, int code, const uint8_t *data, size_t size)
{
        struct refm *r = RM(evt);
        (void)size;
        if (code == CAT_RETURN_STATE_NEXT || code == CAT_RETURN_STATE_DATA_NEXT) { if (r->nonterm_left) r->nonterm_left--; }
        int idx = (code >= -1 && code <= 7) ? code + 1 : 10;
        WS.outcome_classes[((evt ? 4 : 0) + kind) * 12 + idx]++;
        if (kind == HK_W || kind == HK_U) {
                switch (code) {
                case CAT_RETURN_STATE_OK: case CAT_RETURN_STATE_DATA_OK: finish_ok(0); return;
                case CAT_RETURN_STATE_NEXT: case CAT_RETURN_STATE_DATA_NEXT: return;     /* re-invoked, same arguments */
                case CAT_RETURN_STATE_HOLD: r->phase = R_HOLD; WS.lines_hold++; return;
                case CAT_RETURN_STATE_PRINT_CMD_LIST_OK:
                        if (kind == HK_U) { push_cmd_list(); return; }
                        finish_error(0); return;
                default: finish_error(0); return;
                }
        }
        int tl = 0;
        if (data) { while (tl < RCAP(evt) && data[tl]) tl++; }
        switch (code) {
        case CAT_RETURN_STATE_OK: finish_ok(evt); return;
        case CAT_RETURN_STATE_DATA_OK: push_text_unit(evt, data, tl); finish_ok(evt); return;
        case CAT_RETURN_STATE_DATA_NEXT:
                push_text_unit(evt, data, tl);
                if (kind == HK_R) begin_read_format(evt); else begin_test_format(evt);
                return;
        case CAT_RETURN_STATE_NEXT:
                if (kind == HK_R) begin_read_format(evt); else begin_test_format(evt);
                return;
        case CAT_RETURN_STATE_HOLD:
                if (evt) mcx_fatal("config: event handler returning HOLD is outside every property's domain");
                r->phase = R_HOLD; WS.lines_hold++;
                return;
        case CAT_RETURN_STATE_HOLD_EXIT_OK:
                if (evt) hold_implicit_request(1);
                finish_ok(evt); return;
        case CAT_RETURN_STATE_HOLD_EXIT_ERROR:
                if (evt) hold_implicit_request(2);
                finish_error(evt); return;
        case CAT_RETURN_STATE_PRINT_CMD_LIST_OK:
                if (kind == HK_T && !evt) { push_cmd_list(); return; }
                if (kind == HK_T && evt) { finish_ok(evt); return; }
                finish_error(evt); return;
        default: finish_error(evt); return;
        }
}

void ref_handler_returned(int evt, int kind, int code, const uint8_t *data, size_t size)
{
        handler_returned(evt, kind, code, data, size);
        if (evt) evt_maybe_complete();
}

void ref_var_cb(int is_write, int cmd, int var, size_t write_size, int result)
{
        int mc = 0, me = 0;
        struct refm *c = &M->c, *e = &M->e;
        if (is_write) mc = (c->phase == R_WVAR && c->cmd == cmd && c->var_idx == var && c->cb_pending == 1);
        else {
                mc = (c->phase == R_RVAR && c->cmd == cmd && c->var_idx == var && c->cb_pending == 1);
                evt_advance();
                me = (M->cur_valid && e->phase == R_RVAR && e->cmd == cmd && e->var_idx == var && e->cb_pending == 1);
        }
        if (mc && me) mcx_fatal("scenario: variable callback of '%s' is expected by both machines at once; keep event commands disjoint", W.cmd[cmd].name);
        if (!mc && !me) {
                VIOL(P_C01 | P_C02 | P_C09 | P_C10 | P_C13 | P_C08 | P_C04 | P_C05 | P_C20 | P_C12, "unexpected variable %s callback for variable %d of '%s'", is_write ? "write" : "read", var, W.cmd[cmd].name);
                return;
        }
        int evt = me;
        struct refm *r = RM(evt);
        if (is_write) {
                if ((int)write_size != r->wsize)
                        VIOL(P_C05 | P_C04 | P_C08 | P_C20, "C05: variable write callback of '%s' var %d told write_size=%zu, reference says %d", W.cmd[cmd].name, var, write_size, r->wsize);
                r->cb_pending = 2;
        } else r->cb_pending = 0;
        if (evt) evt_observable();
        if (result != 0) finish_error(evt);
        else advance(evt);
        if (evt) evt_maybe_complete();
}

/* all result units of the line are out: compare variable storage with the reference */
void ref_line_completed(void)
{
        struct refm *r = &M->c;
        if (WS.nsample_lines < 6 && (WS.lines_done % 5) == 1 && r->line_n > 0 && r->line_n < 190) {
                int k = WS.nsample_lines++;
                memcpy(WS.sample_line[k], I.line, r->line_n);
                WS.sample_line[k][r->line_n] = '\n';
                WS.sample_len[k] = r->line_n + 1;
        }
        for (int c = 0; c < W.ncmd; c++)
                for (int v = 0; v < W.cmd[c].nvar; v++) {
                        uint8_t *real = w_vardata(c, v), *sh = w_shadow(c, v);
                        int sz = W.cmd[c].var[v].size;
                        if (r->cmd == c && r->dontcare_var == v + 1) { memcpy(sh, real, (size_t)sz); continue; }
                        if (memcmp(real, sh, (size_t)sz) != 0) {
                                char a[200] = "", b[200] = "";
                                for (int k = 0; k < sz && k < 24; k++) { sprintf(a + 2 * k, "%02x", real[k]); sprintf(b + 2 * k, "%02x", sh[k]); }
                                VIOL(P_C04 | P_C05 | P_C07 | P_C08 | P_C09 | P_C02 | P_C06 | P_C20 | P_C01 | P_C12, "variable %d of '%s' holds %s after the line, the reference says %s", v, W.cmd[c].name, a, b);
                                memcpy(sh, real, (size_t)sz);
                        }
                }
        memset(r, 0, sizeof *r);
}
