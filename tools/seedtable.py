#!/usr/bin/env python3
"""seedtable.py: regenerates the table of DESIGN.md section 11.1 from seeded/*/meta.json (between the table header and '### 11.2')."""
import json, os, glob, re
HERE = os.path.dirname(os.path.dirname(os.path.abspath(__file__)))
rows = []
def key(p):
    b = os.path.basename(os.path.dirname(p)); m = re.match(r"C(\d+)(?:_(\w))?$", b); return (int(m.group(1)), m.group(2) or "")
n = caught = outside = missed = 0
for mp in sorted(glob.glob(os.path.join(HERE, "seeded", "C*", "meta.json")), key=key):
    m = json.load(open(mp)); n += 1
    sid = m["seed"]; prop = m["property"]
    if "not_reported_note" in m:
        missed += 1
        rows.append("| %s | %s | **not reported** (in the property's domain, beyond this machinery): %s |" % (sid, m.get("summary", "")[:170].replace("|", "/"), m["not_reported_note"][:260].replace("|", "/")))
        continue
    if "domain_note" in m:
        outside += 1
        rows.append("| %s | %s | not claimed: %s |" % (sid, m.get("summary", "")[:170].replace("|", "/"), m["domain_note"][:200].replace("|", "/")))
        continue
    hit = None
    ck = m.get("checks", {})
    if ck.get(prop, {}).get("rc") == 1: hit = (prop, ck[prop]["first"])
    else:
        for c, v in ck.items():
            if v.get("rc") == 1: hit = (c, v["first"]); break
    if hit: caught += 1
    rows.append("| %s | %s | %s |" % (sid, m.get("summary", "")[:170].replace("|", "/"), ("%s quick: %s" % (hit[0], hit[1][:130].replace("|", "/"))) if hit else "**not reported**"))
d = open(os.path.join(HERE, "DESIGN.md")).read()
head = "| seed | what it changes | caught by (first report) |\n|---|---|---|\n"
i = d.index(head) + len(head); j = d.index("\n### 11.2")
d = d[:i] + "\n".join(rows) + "\n" + d[j:]
open(os.path.join(HERE, "DESIGN.md"), "w").write(d)
print("seeds", n, "reported", caught, "outside domain", outside, "not reported", missed)
