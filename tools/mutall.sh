#!/bin/bash
# runs every hand-written mutant against the check of the property it targets
cd /verif
for m in $(python3 -c "import sys; sys.path.insert(0,'tools'); import mutants; print(' '.join(mutants.M))"); do
  p=$(echo $m | cut -c1-3 | tr 'c' 'C')
  python3 tools/muttest.py $m $p 2>&1 | grep -v WARNING
done
