/* C19: TEST response and command list are faithful to the descriptor */
#include "sweep.h"

struct vopt { cat_var_type t; int size; };
static const struct vopt VO[15] = {
        {CAT_VAR_INT_DEC, 1}, {CAT_VAR_INT_DEC, 2}, {CAT_VAR_INT_DEC, 4}, {CAT_VAR_UINT_DEC, 1}, {CAT_VAR_UINT_DEC, 2}, {CAT_VAR_UINT_DEC, 4},
        {CAT_VAR_NUM_HEX, 1}, {CAT_VAR_NUM_HEX, 2}, {CAT_VAR_NUM_HEX, 4}, {CAT_VAR_BUF_HEX, 1}, {CAT_VAR_BUF_HEX, 4}, {CAT_VAR_BUF_HEX, 64},
        {CAT_VAR_BUF_STRING, 1}, {CAT_VAR_BUF_STRING, 4}, {CAT_VAR_BUF_STRING, 64}};

static void set_var(struct wvar *v, int opt)
{
        /* opt in [0,90): type/width 15 x access 3 x named 2 */
        memset(v, 0, sizeof *v);
        v->type = VO[opt % 15].t; v->size = (uint8_t)VO[opt % 15].size;
        v->access = (cat_var_access)((opt / 15) % 3);
        if (opt / 45) { v->has_name = 1; strcpy(v->name, (opt % 4 == 1) ? "" : "nm"); }       /* every fourth named variable has the empty name "" (not NULL) */
}

static int test_both_machines(int cap)
{
        static const uint8_t line[] = "AT+D=?\n";
        SW.cases++;
        world_init();
        if (sw_feed(line, 7, NULL)) return 1;
        if ((SW.runs % 60013) == 1) sw_sample(line, 7, "test-form");
        mcx_violation_clear();
        do_trigger(0, 0);
        static const uint8_t none[1] = {0};
        if (sw_feed(none, 0, NULL)) return 1;
        (void)cap;
        return 0;
}

static int family_vars(int maxlen, int restricted3)
{
        int idx = 0;
        for (int len = 0; len <= maxlen; len++) {
                int total = 1;
                for (int i = 0; i < len; i++) total *= 90;
                for (int code = 0; code < total; code++) {
                        if (len == 3 && restricted3) {
                                /* quick tier: third variable restricted to the first width of each type, unnamed */
                                int third = code / 8100;
                                if ((third % 15) % 3 != 0 || third / 45) continue;
                        }
                        idx++;
                        if (idx % SW.nshards != SW.shard) continue;
                        for (int dh = 0; dh < 4; dh++) {
                                struct wcmd *c = sw_table(1);
                                strcpy(c[0].name, "+D");
                                c[0].nvar = (uint8_t)len;
                                int x = code;
                                for (int i = 0; i < len; i++) { set_var(&c[0].var[i], x % 90); x /= 90; }
                                if (dh & 1) { c[0].has_desc = 1; strcpy(c[0].desc, "some text"); }
                                if (dh & 2) c[0].hmask = HM_T;
                                if (len == 0 && !(dh & 2)) c[0].hmask |= HM_W;      /* no TEST form: '?' goes to the write handler */
                                sw_caps(120, (code ^ dh) & 1);
                                W.line_max = 40; W.mon = P_ALL;
                                W.nev = 1; W.ev[0].cmd = 0; W.ev[0].type = CAT_CMD_TYPE_TEST;
                                int8_t dok[] = {CAT_RETURN_STATE_DATA_OK};
                                memcpy(W.codes[HK_T], dok, 1); W.ncodes[HK_T] = 1; memcpy(W.ecodes[HK_T], dok, 1); W.necodes[HK_T] = 1;
                                world_build();
                                snprintf(SW.extra, sizeof SW.extra, "family=test-vars len=%d code=%d desc=%d handler=%d", len, code, dh & 1, dh >> 1);
                                if (test_both_machines(120)) return 1;
                                if (len <= 2 && (code % 7) == 0) {
                                        /* exact fit and one byte short: learn the length from the response just produced */
                                        world_init();
                                        static const uint8_t line[] = "AT+D=?\n";
                                        if (sw_feed(line, 7, NULL)) return 1;
                                        int on = w_output_len();
                                        if (on > 8 && w_output()[1] == '+') {
                                                int textlen = on - 2 - 4;        /* strip NL text NL + NL OK NL */
                                                for (int cap = textlen; cap <= textlen + 1; cap++) {
                                                        if (cap < 6) continue;
                                                        sw_caps(cap, 0);
                                                        world_build();
                                                        if (test_both_machines(cap)) return 1;
                                                }
                                        }
                                }
                        }
                        if ((idx & 255) == 0 && sw_expired()) return 0;
                }
        }
        return 0;
}

/* ---------- command shapes and the command list ---------- */
static void shape(struct wcmd *c, const char *name, int hm, int flags, int vp)
{
        memset(c, 0, sizeof *c);
        c->registered = 1;
        strcpy(c->name, name);
        c->hmask = (uint8_t)hm;
        c->only_test = flags & 1; c->disable = (flags >> 1) & 1; c->implicit = (flags >> 3) & 1;
        static const int prof[5][2] = {{-1, -1}, {CAT_VAR_ACCESS_READ_ONLY, -1}, {CAT_VAR_ACCESS_WRITE_ONLY, -1}, {CAT_VAR_ACCESS_READ_WRITE, -1}, {CAT_VAR_ACCESS_READ_ONLY, CAT_VAR_ACCESS_WRITE_ONLY}};
        if (vp == 5) { c->var_ptr = 1; return; }
        for (int i = 0; i < 2; i++)
                if (prof[vp][i] >= 0) {
                        struct wvar *v = &c->var[c->nvar++];
                        memset(v, 0, sizeof *v);
                        v->type = CAT_VAR_UINT_DEC; v->size = 1; v->access = (cat_var_access)prof[vp][i];
                }
}

static int legal_shape(int hm, int flags, int vp)
{
        int implicit = (flags >> 3) & 1;
        if (implicit && (hm & (HM_R | HM_U | HM_T))) return 0;       /* cat_init forbids it */
        if (implicit && vp != 0) return 0;                            /* excepted by the statement */
        return 1;
}

static int submit_forms(const char *name)
{
        char line[64];
        static const char *SUF[5] = {"", "?", "=5", "=?", "="};
        for (int s = 0; s < 5; s++) {
                int n = snprintf(line, sizeof line, "AT%s%s\n", name, SUF[s]);
                SW.cases++;
                if (sw_line((const uint8_t *)line, n)) return 1;
        }
        return 0;
}

static int list_and_forms(const char *const *names, int nshape)
{
        static const uint8_t ls[] = "AT+L\n";
        SW.cases++;
        if (sw_line(ls, 5)) return 1;
        if ((SW.runs % 20011) == 1) sw_sample(ls, 5, "command-list");
        for (int i = 0; i < nshape; i++)
                if (submit_forms(names[i])) return 1;
        return 0;
}

static int family_shapes(int pairs)
{
        int idx = 0;
        static const char *names[2] = {"+P", "+Q"};
        int8_t lst[] = {CAT_RETURN_STATE_PRINT_CMD_LIST_OK};
        int nshapes = 16 * 16 * 6;
        for (int s1 = 0; s1 < nshapes; s1++) {
                int hm1 = s1 % 16, fl1 = (s1 / 16) % 16, vp1 = s1 / 256;
                if (!legal_shape(hm1, fl1, vp1)) continue;
                int s2lim = pairs ? nshapes : 1;
                for (int s2 = 0; s2 < s2lim; s2++) {
                        int hm2 = s2 % 16, fl2 = (s2 / 16) % 16, vp2 = s2 / 256;
                        if (pairs && !legal_shape(hm2, fl2, vp2)) continue;
                        /* pairs: restrict the partner to one representative per flag combination */
                        if (pairs == 1 && !(hm2 == 15 - (fl2 & 8 ? 14 : 0) && (vp2 == 3 || (fl2 & 8)))) continue;
                        idx++;
                        if (idx % SW.nshards != SW.shard) continue;
                        int n = pairs ? 3 : 2;
                        struct wcmd *c = sw_table(n);
                        shape(&c[0], "+P", hm1, fl1, vp1);
                        if (pairs) shape(&c[1], "+Q", hm2, fl2, vp2);
                        shape(&c[n - 1], "+L", HM_U, 0, 0);
                        /* every command sits in a group of its own; bit 2 of the flags disables that group */
                        W.ngrp = n;
                        memset(W.grp_disable, 0, sizeof W.grp_disable);
                        for (int i = 0; i < n; i++) c[i].group = (uint8_t)i;
                        if (fl1 & 4) W.grp_disable[0] = 1;
                        if (pairs && (fl2 & 4)) W.grp_disable[1] = 1;
                        memcpy(W.codes[HK_U], lst, 1); W.ncodes[HK_U] = 1;
                        for (int tight = 0; tight < 3; tight++) {
                                /* the longest list line is NL "AT+P=?" NL = 8 bytes: capacity 9 is the exact fit, 8 is one short */
                                int cap = tight == 0 ? 32 : tight == 1 ? 9 : 8;
                                sw_caps(cap, tight & 1);
                                W.line_max = 40; W.mon = P_ALL;
                                world_build();
                                snprintf(SW.extra, sizeof SW.extra, "family=shapes s1=(h%d f%d v%d) s2=(h%d f%d v%d) cap=%d", hm1, fl1, vp1, hm2, fl2, vp2, cap);
                                if (list_and_forms(names, pairs ? 2 : 1)) return 1;
                        }
                        if ((idx & 127) == 0 && sw_expired()) return 0;
                }
        }
        return 0;
}

int main(int argc, char **argv)
{
        sw_init(argc, argv, "describe");
        const char *fam = sw_args(argc, argv, "--family", "vars");
        if (!strcmp(fam, "vars")) family_vars(sw_argi(argc, argv, "--maxlen", 2), sw_argi(argc, argv, "--restricted3", 1));
        else family_shapes(sw_argi(argc, argv, "--pairs", 0));
        char tag[64];
        snprintf(tag, sizeof tag, "describe-%s-%d", fam, SW.shard);
        return sw_finish(tag);
}
