/* monitors: input lexer, output attribution, event-queue specification
 * (set of possible hidden states), hold, busy and read-only oracles. */
#include "wint.h"
#include <string.h>

#define ALLP P_ALL

void mon_init(void)
{
        M = &I.S->M;
        memset(M, 0, sizeof *M);
        M->c.cmd = -1; M->e.cmd = -1;
        M->sset = 1u;   /* (k=0, inactive) */
}

/* ------------------------------------------------------------------ */
/* input                                                               */

void mon_input(uint8_t b)
{
        if (M->c.phase != R_NONE || !fifo_empty(&M->fc)) {
                if (M->c.phase == R_HOLD)
                        VIOL(ALLP, "C14: input byte 0x%02x consumed while the command is held and no release was requested", b);
                else
                        VIOL(ALLP, "C01: input byte 0x%02x consumed before the result code of the previous line was completely emitted", b);
                return;
        }
        if (b == '\n') {
                if (!M->line_nonblank) {
                        WS.lines_blank++;
                        memset(I.line, 0, M->line_len);
                        M->line_len = 0;
                        return;
                }
                int len = M->line_len;
                M->line_len = 0; M->line_nonblank = 0;
                if (M->doomed) {
                        int reason = M->doomed, crlf = M->doom_crlf;
                        M->doomed = 0; M->doom_crlf = 0;
                        ref_on_doomed_line(reason, crlf);
                        return;
                }
                ref_on_line(I.line, len);
                return;
        }
        if (M->doomed) {
                if (b == '\r') M->doom_crlf = 1;
                return;
        }
        if ((int)M->line_len >= W.line_max) mcx_fatal("line longer than line_max=%d", W.line_max);
        {
                /* the two prefix characters are case-insensitive for parser and reference alike: store them folded so states merge */
                int nb = 0;
                for (int i = 0; i < (int)M->line_len && nb < 2; i++) if (I.line[i] != '\r') nb++;
                if (nb < 2 && b >= 'a' && b <= 'z') b = (uint8_t)(b - 32);
        }
        I.line[M->line_len++] = b;
        if (b != '\r') M->line_nonblank = 1;
        if (W.merge_doomed) {
                int reason = ref_prefix_doomed(I.line, M->line_len);
                if (reason) {
                        int seen = 0, crlf = 0;
                        for (int i = 0; i < (int)M->line_len; i++) { if (I.line[i] == '\r') { if (seen) crlf = 1; } else seen = 1; }
                        M->doomed = (uint8_t)reason; M->doom_crlf = (uint8_t)crlf;
                        memset(I.line, 0, M->line_len);
                        M->line_len = 0;
                }
        }
}

int mon_at_line_boundary(void)
{
        return M->line_len == 0 && !M->line_nonblank && M->c.phase == R_NONE && fifo_empty(&M->fc);
}

/* ------------------------------------------------------------------ */
/* event specification: set of possible (popped count k, active) pairs  */

#define SBIT(k, a) (1u << (2 * (k) + (a)))

static void sset_closure(void)
{
        for (;;) {
                uint32_t s = M->sset;
                for (int k = 0; k <= M->qn; k++) {
                        if ((s & SBIT(k, 0)) && k < M->qn) s |= SBIT(k + 1, 1);            /* pop */
                        if (k > 0 && (s & SBIT(k, 1)) && M->q[k - 1].complete) s |= SBIT(k, 0); /* finish */
                }
                if (s == M->sset) break;
                M->sset = s;
        }
}

static void q_compact(void)
{
        int kmin = 0;
        while (kmin <= M->qn && !(M->sset & (SBIT(kmin, 0) | SBIT(kmin, 1)))) kmin++;
        int drop = kmin - 1;
        if (kmin <= M->qn && !(M->sset & SBIT(kmin, 1))) drop = kmin;   /* nobody can still be working on q[kmin-1] */
        /* keep the last entry while it may be active */
        if (drop <= 0) return;
        if (M->cur_valid && M->cur < drop) mcx_fatal("event spec: dropping the current event");
        for (int i = 0; i < drop; i++)
                if (!M->q[i].complete) mcx_fatal("event spec: dropping an incomplete event");
        memmove(M->q, M->q + drop, sizeof M->q[0] * (size_t)(M->qn - drop));
        memset(M->q + (M->qn - drop), 0, sizeof M->q[0] * (size_t)drop);
        M->qn = (uint8_t)(M->qn - drop);
        M->sset >>= 2 * drop;
        if (M->cur_valid) M->cur = (uint8_t)(M->cur - drop);
}

/* make M->e describe the first event that still owes an observable */
void evt_advance(void)
{
        while (!M->cur_valid) {
                int j = 0;
                while (j < M->qn && M->q[j].complete) j++;
                if (j >= M->qn) return;
                ref_begin_event(M->q[j].ev);
                if (M->e.phase == R_FINAL && fifo_empty(&M->fe)) {
                        M->q[j].complete = 1;       /* ends without any observable effect */
                        WS.ev_silent++; WS.ev_done++;
                        memset(&M->e, 0, sizeof M->e); M->e.cmd = -1;
                        continue;
                }
                M->cur = (uint8_t)j; M->cur_valid = 1;
        }
}

void evt_maybe_complete(void)
{
        if (M->cur_valid && M->e.phase == R_FINAL && fifo_empty(&M->fe)) {
                M->q[M->cur].complete = 1;
                M->cur_valid = 0;
                WS.ev_done++;
                memset(&M->e, 0, sizeof M->e); M->e.cmd = -1;
                evt_advance();
        }
}

/* an observable action of the current event: the hidden state must have it in progress */
void evt_observable(void)
{
        if (!M->cur_valid) mcx_fatal("evt_observable without current event");
        sset_closure();
        uint32_t keep = M->sset & SBIT(M->cur + 1, 1);
        if (!keep) {
                VIOL(P_C13 | P_C11 | P_C14 | P_C15, "C13: event '%s' shows activity although, by the specification of the queue, it cannot be the one in progress "
                     "(not accepted, already finished, or overtaking an earlier event)", W.cmd[W.ev[M->q[M->cur].ev].cmd].name);
                return;
        }
        M->sset = keep;
}

void mon_service_begin(void)
{
        sset_closure();
}

int mon_evt_idle(void) { return M->qn == 0 && M->sset == 1u; }

static int waiting_ok(int k, int want_room)
{
        int waiting = M->qn - k;
        int room = waiting < (int)CAT_UNSOLICITED_CMD_BUFFER_SIZE;
        return room == want_room;
}

static int sset_filter_room(int want_room)
{
        uint32_t s = 0;
        for (int k = 0; k <= M->qn; k++)
                for (int a = 0; a < 2; a++)
                        if ((M->sset & SBIT(k, a)) && waiting_ok(k, want_room)) s |= SBIT(k, a);
        if (!s) return 0;
        M->sset = s;
        return 1;
}

int mon_trigger_ambiguous(void)
{
        int yes = 0, no = 0;
        for (int k = 0; k <= M->qn; k++)
                for (int a = 0; a < 2; a++)
                        if (M->sset & SBIT(k, a)) { if (waiting_ok(k, 1)) yes = 1; else no = 1; }
        return yes && no;
}

void mon_trigger(int ev, cat_status s)
{
        if (s != CAT_STATUS_OK && s != CAT_STATUS_ERROR_BUFFER_FULL) {
                VIOL(P_C13 | P_C16, "C13: trigger returned unexpected status %d", s);
                return;
        }
        int ok = (s == CAT_STATUS_OK);
        if (!sset_filter_room(ok)) {
                VIOL(P_C13 | P_C11 | P_C15, "C13: trigger for '%s' answered %s, but %s than %d events can be waiting", W.cmd[W.ev[ev].cmd].name, ok ? "OK" : "BUFFER_FULL",
                     ok ? "no fewer" : "fewer", (int)CAT_UNSOLICITED_CMD_BUFFER_SIZE);
                return;
        }
        if (!ok) { WS.ev_full++; return; }
        WS.ev_accepted++;
        if (M->qn >= W_QMAX) mcx_fatal("event spec list overflow");
        M->q[M->qn].ev = (uint8_t)ev; M->q[M->qn].complete = 0;
        M->qn++;
        evt_advance();
        q_compact();
}

void mon_trigger_unknown(int ev)
{
        /* the return value was masked by a failing unlock; do_trigger only lets that happen when the outcome is determined */
        int room = 0;
        for (int k = 0; k <= M->qn; k++)
                for (int a = 0; a < 2; a++)
                        if ((M->sset & SBIT(k, a)) && waiting_ok(k, 1)) room = 1;
        mon_trigger(ev, room ? CAT_STATUS_OK : CAT_STATUS_ERROR_BUFFER_FULL);
}

void mon_q_full(cat_status s)
{
        if (s != CAT_STATUS_OK && s != CAT_STATUS_ERROR_BUFFER_FULL) { VIOL(P_C13 | P_C16, "C13: cat_is_unsolicited_buffer_full returned %d", s); return; }
        if (!sset_filter_room(s == CAT_STATUS_OK))
                VIOL(P_C13, "C13: cat_is_unsolicited_buffer_full answered %s, contradicting the number of waiting events", s == CAT_STATUS_OK ? "OK" : "BUFFER_FULL");
}

static int ev_matches(int qe, int ev, int any)
{
        if (W.ev[qe].cmd != W.ev[ev].cmd) return 0;
        return any || W.ev[qe].type == W.ev[ev].type;
}

void mon_q_buffered(int ev, int any, cat_status st)
{
        if (st != CAT_STATUS_OK && st != CAT_STATUS_BUSY) { VIOL(P_C13, "C13: cat_is_unsolicited_event_buffered returned %d", st); return; }
        uint32_t s = 0;
        for (int k = 0; k <= M->qn; k++)
                for (int a = 0; a < 2; a++) {
                        if (!(M->sset & SBIT(k, a))) continue;
                        int pend = 0;
                        for (int j = k; j < M->qn; j++) if (ev_matches(M->q[j].ev, ev, any)) pend = 1;
                        if (a && k > 0 && ev_matches(M->q[k - 1].ev, ev, any)) pend = 1;
                        if ((pend ? CAT_STATUS_BUSY : CAT_STATUS_OK) == st) s |= SBIT(k, a);
                }
        if (!s) {
                VIOL(P_C13, "C13: cat_is_unsolicited_event_buffered('%s'%s) answered %s, contradicting the accepted/finished events", W.cmd[W.ev[ev].cmd].name,
                     any ? ", any type" : "", st == CAT_STATUS_BUSY ? "BUSY" : "OK");
                return;
        }
        M->sset = s;
        q_compact();
}

void mon_q_processed(int cmd)
{
        uint32_t s = 0;
        for (int k = 0; k <= M->qn; k++)
                for (int a = 0; a < 2; a++) {
                        if (!(M->sset & SBIT(k, a))) continue;
                        int want = (a && k > 0) ? W.ev[M->q[k - 1].ev].cmd : -1;
                        if (want == cmd) s |= SBIT(k, a);
                }
        if (!s) {
                VIOL(P_C13, "C13: cat_get_processed_command(UNSOLICITED) returned %s, contradicting the accepted/finished events", cmd >= 0 ? W.cmd[cmd].name : "NULL");
                return;
        }
        M->sset = s;
        q_compact();
}

void mon_service_end(cat_status s, int status_known)
{
        sset_closure();
        if (!status_known || s != CAT_STATUS_OK) { q_compact(); return; }
        /* OK: nothing is left to do without new stimulus */
        if (M->c.phase != R_NONE && M->c.phase != R_HOLD)
                VIOL(P_C15 | P_C01, "C15: cat_service returned OK while the response to a complete command line is still owed");
        else if (!fifo_empty(&M->fc))
                VIOL(P_C15 | P_C01 | P_C11, "C15: cat_service returned OK while command output is still pending");
        uint32_t keep = M->sset & SBIT(M->qn, 0);
        int all_complete = 1;
        for (int j = 0; j < M->qn; j++) if (!M->q[j].complete) all_complete = 0;
        if (!keep || !all_complete || !fifo_empty(&M->fe)) {
                VIOL(P_C15 | P_C13 | P_C11, "C15: cat_service returned OK while an accepted unsolicited event has not been processed");
                return;
        }
        memset(M->q, 0, sizeof M->q);
        M->qn = 0; M->sset = 1u; M->cur_valid = 0; M->cur = 0;
}

/* ------------------------------------------------------------------ */
/* output attribution                                                   */

static void cmd_unit_done(void)
{
        WS.units_cmd++;
        fifo_pop(&M->fc);
        if ((M->c.phase == R_FINAL || M->c.phase == R_HOLD_REL) && fifo_empty(&M->fc)) {
                M->rel_mask = 0;
                ref_line_completed();
                memset(I.line, 0, (size_t)W.line_max);
        }
}

static void evt_unit_done(void)
{
        WS.units_evt++;
        fifo_pop(&M->fe);
        evt_maybe_complete();
        q_compact();
}

void mon_output(uint8_t b)
{
        struct fifo *fc = &M->fc, *fe = &M->fe;
        if (fifo_empty(fe)) evt_advance();
        char h1[200], h2[200];
        if (fc->open == 2) {
                int r = unit_step(fc, b, 1);
                if (!r) {
                        fifo_describe_head(fc, h1, sizeof h1);
                        VIOL(ALLP, "C11: output byte 0x%02x breaks the command response unit in progress; expected continuation of: %s", b, h1);
                        return;
                }
                if (r == 2) cmd_unit_done();
                return;
        }
        if (fe->open == 2) {
                int r = unit_step(fe, b, 1);
                if (!r) {
                        fifo_describe_head(fe, h1, sizeof h1);
                        VIOL(ALLP, "C11: output byte 0x%02x breaks the unsolicited unit in progress; expected continuation of: %s", b, h1);
                        return;
                }
                if (r == 2) evt_unit_done();
                return;
        }
        int hc = !fifo_empty(fc), he = !fifo_empty(fe);
        if (hc && he && !fc->open && !fe->open) WS.both_want_flush++;
        int rc = hc ? unit_step(fc, b, 0) : 0;
        int re = he ? unit_step(fe, b, 0) : 0;
        if (!rc && !re) {
                fifo_describe_head(fc, h1, sizeof h1);
                fifo_describe_head(fe, h2, sizeof h2);
                VIOL(ALLP, "C11/C01: output byte 0x%02x is not the next byte of any owed unit; command machine owes: %s; event machine owes: %s", b, h1, h2);
                return;
        }
        if (rc) { rc = unit_step(fc, b, 1); fc->open = 1; if (M->c.phase == R_HOLD_REL) M->result_started = 1; }
        else if (fc->open) { fc->open = 0; fc->pos = 0; fc->sub = 0; fc->alt = 0; }
        if (re) { re = unit_step(fe, b, 1); fe->open = 1; }
        else if (fe->open) { fe->open = 0; fe->pos = 0; fe->sub = 0; fe->alt = 0; }
        if (rc && re) {
                if (rc == 2 && re == 2) mcx_fatal("scenario: a command unit and an event unit are byte-identical; attribution impossible");
                if (rc == 2) { fe->open = 0; fe->pos = 0; fe->sub = 0; fe->alt = 0; cmd_unit_done(); }
                else if (re == 2) { fc->open = 0; fc->pos = 0; fc->sub = 0; fc->alt = 0; evt_observable(); evt_unit_done(); }
                return;     /* still undecided: both stay tentatively open */
        }
        if (rc) { if (rc == 2) cmd_unit_done(); else fc->open = 2; }
        if (re) {
                /* the unit is now attributed to the event machine: an observable of the current event */
                evt_observable();
                if (re == 2) evt_unit_done(); else fe->open = 2;
        }
}

/* ------------------------------------------------------------------ */
/* hold                                                                 */

int mon_hold_phase(void) { return M->c.phase == R_HOLD ? 1 : M->c.phase == R_HOLD_REL ? 2 : 0; }
int mon_hold_pending(void) { return M->c.phase == R_HOLD_REL; }

static void release_accept(int stbit, int replace)
{
        if (M->c.phase == R_HOLD) {
                M->c.phase = R_HOLD_REL;
                M->rel_mask = (uint8_t)stbit;
                uint8_t b[2] = {(uint8_t)stbit, M->c.crlf};
                fifo_push(&M->fc, K_RESULT, b, 2);
                return;
        }
        M->rel_mask = (uint8_t)(replace ? stbit : (M->rel_mask | stbit));
        fifo_set_result_mask(&M->fc, M->rel_mask);
}

static int result_unstarted(void) { return M->c.phase == R_HOLD_REL && M->fc.open == 0 && fifo_head_is_result(&M->fc); }

void mon_hold_exit(int stbit, cat_status ret, int ret_hidden)
{
        if (!ret_hidden && ret != CAT_STATUS_OK && ret != CAT_STATUS_ERROR_NOT_HOLD) {
                VIOL(P_C14 | P_C16, "C14: cat_hold_exit returned unexpected status %d", ret);
                return;
        }
        if (M->c.phase == R_HOLD) {
                if (!ret_hidden && ret != CAT_STATUS_OK) { VIOL(P_C14, "C14: cat_hold_exit during a hold returned ERROR_NOT_HOLD"); return; }
                release_accept(stbit, 1);
                return;
        }
        if (result_unstarted()) {
                /* between an accepted request and the first byte of the result code both answers are fine */
                if (ret_hidden) release_accept(stbit, 0);
                else if (ret == CAT_STATUS_OK) release_accept(stbit, 1);
                return;
        }
        if (!ret_hidden && ret != CAT_STATUS_ERROR_NOT_HOLD)
                VIOL(P_C14, "C14: cat_hold_exit outside a hold returned OK (want ERROR_NOT_HOLD)");
}

/* an event handler returned HOLD_EXIT_OK / HOLD_EXIT_ERROR */
void hold_implicit_request(int stbit)
{
        if (M->c.phase == R_HOLD) { release_accept(stbit, 1); return; }
        if (result_unstarted()) release_accept(stbit, 0);
}

void mon_hold_answer(cat_status s)
{
        if (!(W.mon & (P_C14 | P_C18))) return;
        if (s != CAT_STATUS_OK && s != CAT_STATUS_HOLD) { VIOL(P_C14 | P_C18, "C18: cat_is_hold returned %d", s); return; }
        if (s == CAT_STATUS_HOLD) WS.hold_yes++;
        if (M->c.phase == R_HOLD) {
                if (s != CAT_STATUS_HOLD) VIOL(P_C14 | P_C18, "C18: cat_is_hold reports no hold while a command is suspended");
        } else if (result_unstarted()) {
                /* either */
        } else if (s == CAT_STATUS_HOLD)
                VIOL(P_C14 | P_C18, "C18: cat_is_hold reports HOLD although no command is suspended");
}

void mon_busy_answer(cat_status s)
{
        if (!(W.mon & P_C18)) return;
        if (s != CAT_STATUS_OK && s != CAT_STATUS_BUSY) { VIOL(P_C18, "C18: cat_is_busy returned %d", s); return; }
        int partial_line = M->line_nonblank;
        int cmd_work = M->c.phase != R_NONE || !fifo_empty(&M->fc);
        int evt_partial = M->fe.open != 0;
        if (s == CAT_STATUS_OK) {
                WS.busy_ok_checked++;
                if (partial_line) VIOL(P_C18, "C18: cat_is_busy reports idle while a command line is partially received");
                else if (cmd_work) VIOL(P_C18, "C18: cat_is_busy reports idle while a command line is being processed or its response is owed");
                else if (evt_partial) VIOL(P_C18, "C18: cat_is_busy reports idle while an unsolicited line is partially emitted (%d bytes out)", M->fe.pos);
        } else {
                WS.busy_busy++;
                if (I.S->last_svc_ok && !partial_line && !cmd_work && !evt_partial)
                        VIOL(P_C18, "C18: cat_is_busy reports BUSY although the parser is quiescent with no partial line");
        }
}

/* ------------------------------------------------------------------ */
/* read-only storage never changes (C08); checked after every API call  */

void mon_ro_check(void)
{
        if (!(W.mon & P_C08) || !I.n_ro) return;
        for (int c = 0; c < W.ncmd; c++)
                for (int v = 0; v < W.cmd[c].nvar; v++) {
                        if (W.cmd[c].var[v].access != CAT_VAR_ACCESS_READ_ONLY) continue;
                        if (memcmp(w_vardata(c, v), w_shadow(c, v), W.cmd[c].var[v].size) != 0)
                                VIOL(P_C08, "C08: read-only variable %d of '%s' was modified", v, W.cmd[c].name);
                }
}
