/* world - the closed system around the real cAT parser:
 * descriptor tables, io / mutex / handler / variable callbacks routed through
 * mcx_choose, the input generator, and the monitors (incremental line-level
 * reference model, output unit matcher, event-queue specification, hold,
 * mutex, busy and quiescence oracles).
 */
#ifndef WORLD_H
#define WORLD_H
#include "cat.h"
#include "mcx.h"
#include <stdbool.h>

#define W_MAXVAR 20
#define W_MAXGRP 4
#define W_MAXEV 8
#define W_QMAX 12            /* pending-event list of the event specification */
#define W_FIFO 512           /* expected-output fifo per producer */
#define W_TEXT 160           /* expected response text under construction */

enum { HK_W = 0, HK_R = 1, HK_U = 2, HK_T = 3 };
#define HM_W 1
#define HM_R 2
#define HM_U 4
#define HM_T 8

/* monitor / property bits */
#define P_C01 (1u << 1)
#define P_C02 (1u << 2)
#define P_C03 (1u << 3)
#define P_C04 (1u << 4)
#define P_C05 (1u << 5)
#define P_C06 (1u << 6)
#define P_C07 (1u << 7)
#define P_C08 (1u << 8)
#define P_C09 (1u << 9)
#define P_C10 (1u << 10)
#define P_C11 (1u << 11)
#define P_C12 (1u << 12)
#define P_C13 (1u << 13)
#define P_C14 (1u << 14)
#define P_C15 (1u << 15)
#define P_C16 (1u << 16)
#define P_C17 (1u << 17)
#define P_C18 (1u << 18)
#define P_C19 (1u << 19)
#define P_C20 (1u << 20)
#define P_ALL 0x1ffffeu

struct wvar {
        cat_var_type type;
        uint8_t size;          /* data_size */
        cat_var_access access;
        char name[12];
        uint8_t has_name, rcb, wcb;
};

struct wcmd {
        char name[40];
        char desc[40];
        uint8_t has_desc;
        uint8_t hmask;
        uint8_t only_test, disable, implicit, need_all;
        uint8_t var_ptr;       /* descriptor sets .var to a non-NULL pointer although var_num is 0 */
        uint8_t nvar;
        struct wvar var[W_MAXVAR];
        uint8_t group;         /* group index for registered commands */
        uint8_t registered;    /* 0: event-only command, not in any group */
};

/* generator */
enum { GEN_GRAMMAR = 0, GEN_FREE = 1 };
struct gencfg {
        int mode;
        char name_alpha[24];   /* characters offered inside the name segment */
        char args_alpha[24];   /* characters offered inside the argument segment */
        char dev_alpha[40];    /* deviation bytes; use dev_n because NUL may be a member */
        int dev_n;
        int max_name, max_args;
        int D;                 /* deviations per line */
        int lines;             /* 0 = unbounded (fixpoint) */
        int lower_prefix;      /* also offer 'a' / 't' */
        int crlf;              /* offer CR LF termination in addition to LF */
        int blank;             /* offer blank lines */
        int suffix_mask;       /* bit0 none(run) bit1 '?' bit2 '=' bit3 '=?' ; 0 = all */
        char free_alpha[24]; int free_n; int free_len;   /* GEN_FREE */
};

struct genst {
        uint8_t seg, nname, nargs, dev_left, lines_left, pos, pad[2];
};

struct wcfg {
        int ncmd;
        struct wcmd *cmd;
        int ngrp;
        uint8_t grp_disable[W_MAXGRP];
        int cap;               /* command-buffer capacity as the library sees it */
        int shared;            /* 1: one buffer split in halves */
        int buf_size;          /* desc.buf_size */
        int ubuf_size;         /* desc.unsolicited_buf_size when !shared */
        int use_mutex, mutex_faults;
        int refuse_read, refuse_write, scribble;
        int8_t codes[4][12]; int ncodes[4];
        int8_t ecodes[4][12]; int necodes[4];
        int max_inv;
        int tok_mode;
        int varcb_fail;
        int h_trigger;         /* command handlers may trigger an event from inside (choice) */
        int h_hold_exit;       /* event handlers may call cat_hold_exit from inside (choice) */
        int nev; struct { int cmd; cat_cmd_type type; } ev[W_MAXEV];
        int trig_budget;       /* 0 = unlimited */
        int act_trigger, act_hold_exit, act_queries, act_flags, act_reinit;
        int reinit_budget;     /* number of re-initialisations per path (default 1) */
        int flag_budget;       /* 0 = unlimited flips */
        struct gencfg gen;
        unsigned mon;          /* enabled property monitors */
        int line_max;
        int interfere;         /* sweeps only: a second, unrelated parser object is serviced between the calls (hidden cross-instance state) */
        int merge_doomed;      /* forget the bytes of lines that are certainly answered ERROR (state merging) */
        int wo_fill;           /* fill byte for write-only storage at init (C08 pairing) */
        int var_init;          /* initial value pattern selector for variables */
        int io_trigger;        /* 1: the io read callback may raise an event (then reports 'no byte') when no mutex is configured */
        int stale_usize;       /* shared layout: unsolicited_buf stays NULL but unsolicited_buf_size is left at this value (cat.h: the pointer decides) */
        int alias_group;       /* 1: the command array of group 0 is registered a second time, as a last, disabled group */
        int refusal_probe;     /* 1: whenever a refusal-only cat_service call changed parser state, follow the all-refusing continuation (side exploration) */
        int str_full;          /* string variables start with all data_size bytes non-zero (no terminator inside the storage) */
};

/* ---- actions of the universal model ---- */
enum {
        A_SERVICE = 0,
        A_TRIGGER,     /* + event index */
        A_HOLD_EXIT_OK,
        A_HOLD_EXIT_ERR,
        A_Q_BUSY, A_Q_HOLD, A_Q_FULL,
        A_Q_BUFFERED,  /* + event index (cmd,type) */
        A_Q_BUFFERED_ANY, /* + event index, type NONE */
        A_Q_PROCESSED,
        A_FLAG_CMD,    /* + cmd index: toggle disable */
        A_FLAG_GRP,    /* + group index */
        A_REINIT,      /* cat_init called again on the used object */
        A__KINDS
};

/* per-call log, filled by callbacks, inspected by step() */
struct calllog {
        int reads_attempted, reads_delivered, reads_refused;
        int writes_attempted, writes_accepted, writes_refused;
        int handler_calls, var_calls, locks, unlocks, lock_failed, unlock_failed;
        int nonquiet;     /* a handler/var choice other than index 0 was taken */
        int nested_lock_refused;
        int ok_state_changed;  /* after OK, a call without new stimulus was silent and returned OK again but changed parser state */
        int io_triggered;      /* the io read callback raised an event during this call (new stimulus from inside the call) */
        int out_n; uint8_t out[64];
        int in_n; uint8_t in[8];
};

extern struct wcfg W;             /* configuration (immutable during a run) */
extern struct calllog L;
extern struct cat_object *w_obj;  /* the real parser object */
extern const struct mcx_model world_model;

/* stats / non-vacuity counters (not part of the state) */
struct wstats {
        uint64_t lines_done, lines_ok, lines_err, lines_blank, lines_hold;
        uint64_t units_cmd, units_evt, both_want_flush;
        uint64_t ev_accepted, ev_full, ev_done, ev_silent;
        uint64_t stutters_checked, ok_repeat_checked;
        uint64_t lock_faults, unlock_faults, api_calls[A__KINDS];
        uint64_t handler_calls[2][4];
        uint64_t busy_ok_checked, busy_busy, hold_yes;
        uint64_t overlong, ambiguous_eq, ambiguous_lf, notfound, drain_err, implicit_hits, test_forms, list_lines;
        uint64_t wvar_ok, wvar_err, rvar;
        uint64_t flag_flips, reinits, refusal_probes, refusal_probe_calls;
        uint64_t canary_checks;
        uint64_t outcome_classes[128];
        int nsamples; char samples[6][400];
        int nsample_lines; uint8_t sample_line[6][200]; int sample_len[6];
};
extern struct wstats WS;

void wcfg_defaults(struct wcfg *c);
void world_build(void);          /* allocate + register regions from W (call once per configuration) */
void world_free(void);
void world_init(void);           /* reset to initial state (mcx_model.init) */

/* table DSL */
int  table_parse(struct wcfg *c, const char *spec);      /* returns 0 ok */
void table_print(const struct wcfg *c, char *out, size_t n);

/* eager single-line driver used by sweeps: feed the bytes, run cat_service until
 * quiescent; the monitors compare against the reference.  returns number of
 * service calls. */
int world_run_bytes(const uint8_t *bytes, int n);
extern int w_noread_value;
extern const uint8_t *w_feed; extern int w_feed_n, w_feed_pos;  /* scripted input (GEN disabled when w_feed != NULL) */

/* access to variable storage */
uint8_t *w_vardata(int cmd, int var);
uint8_t *w_shadow(int cmd, int var);
void w_set_var(int cmd, int var, const void *bytes);   /* sets real and shadow */

/* sanitizer hook flag */
extern volatile int w_san_error;

/* helpers for drivers */
const char *w_output(void);  int w_output_len(void);  void w_output_reset(void);
void world_config_header(char *out, size_t n);
void world_resolve_samples(void);
extern int w_liveness;
long world_liveness_check(uint64_t *nodes, mcx_hash_t *witness);
void w_sample(const char *fmt, ...) __attribute__((format(printf, 1, 2)));
void w_esc(char *out, size_t n, const uint8_t *b, int len);
uint64_t w_lib_hash(void);

#endif
