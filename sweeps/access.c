/* C08: read-only variables are never modified, write-only ones never disclosed;
 * READ / WRITE availability follows the access modes. */
#include "sweep.h"

static const cat_var_type T[5] = {CAT_VAR_INT_DEC, CAT_VAR_UINT_DEC, CAT_VAR_NUM_HEX, CAT_VAR_BUF_HEX, CAT_VAR_BUF_STRING};
static const int SZ0[5] = {2, 1, 4, 3, 6}, SZ1[5] = {4, 2, 8, 48, 40};     /* profile 1: buffers beyond 32 bytes */
static const int *SZ = SZ0;
static const char *GOOD[5] = {"-12", "200", "0xBEEF01", "A1b2C3", "\"hi\\\"x\""};
static const char *BAD[5] = {"1x", "-1", "0x", "A1b", "\"hi"};
static const char *OVER[5] = {"32768", "256", "0x100000000", "A1B2C3D4", "\"toolong\""};

static int g_cap = 96, g_rcb;
static void build(const int ty[3], const int acc[3], int hmask, int need_all, int shared)
{
        struct wcmd *c = sw_table(1);
        strcpy(c[0].name, "+A");
        c[0].hmask = (uint8_t)hmask;
        c[0].need_all = (uint8_t)need_all;
        c[0].nvar = 3;
        for (int i = 0; i < 3; i++) {
                memset(&c[0].var[i], 0, sizeof c[0].var[i]);
                c[0].var[i].type = T[ty[i]]; c[0].var[i].size = (uint8_t)SZ[ty[i]]; c[0].var[i].access = (cat_var_access)acc[i];
                c[0].var[i].wcb = 1;
                c[0].var[i].rcb = (uint8_t)g_rcb;
        }
        sw_caps(g_cap, shared);
        W.line_max = 160;
        W.mon = P_ALL;
        W.nev = 2;
        W.ev[0].cmd = 0; W.ev[0].type = CAT_CMD_TYPE_READ;
        W.ev[1].cmd = 0; W.ev[1].type = CAT_CMD_TYPE_TEST;
        world_build();
}

static int run(const char *line)
{
        SW.cases++;
        int n = (int)strlen(line);
        world_init();
        if (sw_feed((const uint8_t *)line, n, NULL)) return 1;
        if ((SW.runs % 9973) == 1) sw_sample((const uint8_t *)line, n, "access");
        /* the same formatting paths through the unsolicited machine */
        for (int e = 0; e < 2; e++) {
                mcx_violation_clear();
                do_trigger(e, 0);
                static const uint8_t none[1] = {0};
                if (sw_feed(none, 0, NULL)) return 1;
        }
        return 0;
}

/* long variable lists (per-command summaries narrower than the list): every single position write-only among 18 and 20
 * variables, then every pair around the 8/16 boundaries; READ by request and by event, write-only contents non-zero */
static int many_vars(void)
{
        for (int nv = 17; nv <= 20; nv++)
                for (int a = 0; a < nv; a++)
                        for (int b = a; b < nv; b++) {
                                if (b != a && !((a == 7 || a == 8 || a == 15 || a == 16) || (b == 15 || b == 16 || b == nv - 1))) continue;
                                struct wcmd *c = sw_table(1);
                                strcpy(c[0].name, "+A");
                                c[0].hmask = 0; c[0].nvar = (uint8_t)nv;
                                for (int i = 0; i < nv; i++) {
                                        memset(&c[0].var[i], 0, sizeof c[0].var[i]);
                                        c[0].var[i].type = T[i % 5]; c[0].var[i].size = (uint8_t)(i % 5 == 3 ? 2 : i % 5 == 4 ? 3 : 1);
                                        c[0].var[i].access = (i == a || i == b) ? CAT_VAR_ACCESS_WRITE_ONLY : (i & 1) ? CAT_VAR_ACCESS_READ_ONLY : CAT_VAR_ACCESS_READ_WRITE;
                                }
                                W.wo_fill = 'g';
                                sw_caps(150, (a + b) % 3);
                                W.line_max = 160; W.mon = P_ALL;
                                W.nev = 1; W.ev[0].cmd = 0; W.ev[0].type = CAT_CMD_TYPE_READ;
                                world_build();
                                snprintf(SW.extra, sizeof SW.extra, "family=many-vars nvar=%d write-only=%d,%d", nv, a, b);
                                SW.cases++;
                                world_init();
                                static const uint8_t rd[] = "AT+A?\n", none[1] = {0};
                                if (sw_feed(rd, 6, NULL)) return 1;
                                mcx_violation_clear();
                                do_trigger(0, 0);
                                if (sw_feed(none, 0, NULL)) return 1;
                        }
        W.wo_fill = 0;
        return 0;
}

int main(int argc, char **argv)
{
        sw_init(argc, argv, "access");
        if (SW.shard == 0 && many_vars()) { char tg[64]; snprintf(tg, sizeof tg, "access-%d", SW.shard); return sw_finish(tg); }
        int idx = 0;
        char line[300];
        static const int FILLS[6] = {0, 0xA5, 'g', '"', 0xFF, 0x180};      /* 0x180: most negative value of the width */
        for (int t0 = 0; t0 < 5; t0++)
        for (int am = 0; am < 27; am++)
        for (int hm = 0; hm < 4; hm++, idx++) {
                if (idx % SW.nshards != SW.shard) continue;
                int ty[3] = {t0, (t0 + 1 + am % 2) % 5, (t0 + 3) % 5};
                int acc[3] = {am % 3, (am / 3) % 3, am / 9};
                int hmask = (hm & 1 ? HM_R : 0) | (hm & 2 ? HM_W : 0);
                for (int fi = 0; fi < 6; fi++)
                for (int na = 0; na < 2; na++) {
                        if (fi >= 4 && na) continue;
                        W.wo_fill = FILLS[fi];
                        /* variable read callbacks on/off; strings filling their storage completely (no terminator inside) on/off */
                        g_rcb = (fi ^ na) & 1; W.str_full = (fi >> 1) & 1;
                        build(ty, acc, hmask, na, fi & 1);
                        snprintf(SW.extra, sizeof SW.extra, "types=%d,%d,%d access=%d,%d,%d handlers=%d need_all=%d wo_fill=0x%03x", ty[0], ty[1], ty[2], acc[0], acc[1], acc[2], hmask, na, FILLS[fi]);
                        if (run("AT+A?\n")) goto out;
                        /* the same READ (and both event paths) at every small capacity: whether the response fits must not depend on write-only contents */
                        if (na == 0 && (acc[0] == CAT_VAR_ACCESS_WRITE_ONLY || acc[1] == CAT_VAR_ACCESS_WRITE_ONLY || acc[2] == CAT_VAR_ACCESS_WRITE_ONLY)) {
                                for (g_cap = 8; g_cap <= 44; g_cap++) {
                                        build(ty, acc, hmask, na, fi & 1);
                                        if (run("AT+A?\n")) goto out;
                                }
                                g_cap = 96;
                                build(ty, acc, hmask, na, fi & 1);
                        }
                        if (fi == 0 || fi >= 4) {
                                /* large variables (hex buffer 48, string 40): READ, TEST and both event paths */
                                SZ = SZ1; g_cap = 250; W.line_max = 420;
                                build(ty, acc, hmask, na, na);
                                int bad = run("AT+A?\n") || run("AT+A=?\n");
                                SZ = SZ0; g_cap = 96;
                                if (bad) goto out;
                                build(ty, acc, hmask, na, fi & 1);
                        }
                        if (run("AT+A=?\n")) goto out;
                        if (run("AT+A\n")) goto out;
                        snprintf(line, sizeof line, "AT+A=%s,%s,%s\n", GOOD[ty[0]], GOOD[ty[1]], GOOD[ty[2]]);
                        if (run(line)) goto out;
                        snprintf(line, sizeof line, "AT+A=%s,%s\n", GOOD[ty[0]], GOOD[ty[1]]);
                        if (run(line)) goto out;
                        snprintf(line, sizeof line, "AT+A=%s\r\n", GOOD[ty[0]]);
                        if (run(line)) goto out;
                        snprintf(line, sizeof line, "AT+A=%s,%s,%s,1\n", GOOD[ty[0]], GOOD[ty[1]], GOOD[ty[2]]);
                        if (run(line)) goto out;
                        for (int p = 0; p < 3; p++) {
                                const char *f[3] = {GOOD[ty[0]], GOOD[ty[1]], GOOD[ty[2]]};
                                f[p] = BAD[ty[p]];
                                snprintf(line, sizeof line, "AT+A=%s,%s,%s\n", f[0], f[1], f[2]);
                                if (run(line)) goto out;
                                /* over-range values for a read-only variable are outside the statement (never stored, never range-checked) */
                                if (acc[p] != CAT_VAR_ACCESS_READ_ONLY) {
                                        f[p] = OVER[ty[p]];
                                        snprintf(line, sizeof line, "AT+A=%s,%s,%s\n", f[0], f[1], f[2]);
                                        if (run(line)) goto out;
                                }
                                if (ty[p] == 4) {
                                        f[p] = "\"sixsix\"";      /* exactly data_size characters between the quotes */
                                        snprintf(line, sizeof line, "AT+A=%s,%s,%s\n", f[0], f[1], f[2]);
                                        if (run(line)) goto out;
                                }
                                f[p] = "";
                                snprintf(line, sizeof line, "AT+A=%s,%s,%s\n", f[0], f[1], f[2]);
                                if (run(line)) goto out;
                        }
                }
                if (sw_expired()) goto out;
        }
out:;
        W.wo_fill = 0; W.str_full = 0;
        char tag[64];
        snprintf(tag, sizeof tag, "access-%d", SW.shard);
        return sw_finish(tag);
}
