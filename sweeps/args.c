/* C06: handlers see exactly the sent arguments; over-long lines are rejected, not cut */
#include "sweep.h"

static int kind;   /* 0 plain write, 1 implicit write, 2 variables + write handler */

static void build(int k, int cap, int shared)
{
        struct wcmd *c = sw_table(2);
        kind = k;
        if (k == 0) { strcpy(c[0].name, "+W"); c[0].hmask = HM_W; }
        else if (k == 1) { strcpy(c[0].name, "D"); c[0].hmask = HM_W; c[0].implicit = 1; }
        else {
                strcpy(c[0].name, "+V"); c[0].hmask = HM_W; c[0].nvar = 2;
                c[0].var[0] = (struct wvar){.type = CAT_VAR_BUF_STRING, .size = 64, .access = CAT_VAR_ACCESS_READ_WRITE};
                c[0].var[1] = (struct wvar){.type = CAT_VAR_UINT_DEC, .size = 1, .access = CAT_VAR_ACCESS_READ_WRITE};
        }
        strcpy(c[1].name, "+Z"); c[1].hmask = HM_U;
        sw_caps(cap, shared);
        W.line_max = 3 * cap + 40;
        W.mon = P_ALL;
        world_build();
}

static int run_args(const uint8_t *a, int n)
{
        uint8_t line[400];
        int k = 0;
        const char *pre = kind == 0 ? "AT+W=" : kind == 1 ? "ATD" : "AT+V=";
        memcpy(line, pre, strlen(pre)); k = (int)strlen(pre);
        memcpy(line + k, a, (size_t)n); k += n;
        line[k++] = '\n';
        /* a second line shows that parsing resumes cleanly */
        memcpy(line + k, "AT+Z\n", 5); k += 5;
        SW.cases++;
        int r = sw_line(line, k);
        if (!r && (SW.runs % 40009) == 1) sw_sample(line, k, "args");
        return r;
}

int main(int argc, char **argv)
{
        sw_init(argc, argv, "args");
        int lite = sw_argi(argc, argv, "--lite", 0);
        static const int CAPS[] = {6, 7, 8, 16, 24, 32};
        int ncaps = SW.tier ? 6 : 4;
        int idx = 0;
        uint8_t a[400];
        for (int k = 0; k < 3; k++)
                for (int ci = 0; ci < ncaps; ci++)
                        for (int shared = 0; shared < 3; shared++, idx++) {
                                if (idx % SW.nshards != SW.shard) continue;
                                int cap = CAPS[ci];
                                if (lite && cap == 16) continue;
                                build(k, cap, shared);
                                snprintf(SW.extra, sizeof SW.extra, "kind=%d cap=%d shared=%d", k, cap, shared);
                                /* positional sweep: every byte value at every position of every length */
                                for (int L = 0; L <= 3 * cap; L++) {
                                        for (int fill = 0; fill < 2; fill++) {
                                                for (int i = 0; i < L; i++) a[i] = (uint8_t)(((i + fill) & 1) ? 'a' : 'A');
                                                if (k == 2) { /* make the base text parse: "aAa...",<digit> is not needed; errors are fine too */ }
                                                if (run_args(a, L)) goto out;
                                                for (int p = 0; p < L; p++) {
                                                        uint8_t keep = a[p];
                                                        for (int b = 0; b < 256; b++) {
                                                                if (b == '\n') continue;
                                                                if (b == 0 && k == 2) continue;      /* NUL inside a variable text: outside C04/C05 alphabets */
                                                                a[p] = (uint8_t)b;
                                                                if (run_args(a, L)) goto out;
                                                        }
                                                        a[p] = keep;
                                                }
                                        }
                                        if (sw_expired()) goto out;
                                }
                                /* all strings over {a, A, CR, NUL} up to cap+1 */
                                if (cap <= 7) {
                                        static const uint8_t AL[4] = {'a', 'A', '\r', 0};
                                        int na = (k == 2) ? 3 : 4;
                                        int cnt[16];
                                        for (int len = 1; len <= cap + 1; len++) {
                                                memset(cnt, 0, sizeof cnt);
                                                for (;;) {
                                                        for (int i = 0; i < len; i++) a[i] = AL[cnt[i]];
                                                        if (run_args(a, len)) goto out;
                                                        int q = len - 1;
                                                        while (q >= 0 && ++cnt[q] == na) { cnt[q] = 0; q--; }
                                                        if (q < 0) break;
                                                }
                                        }
                                }
                                /* well-formed variable texts of every length around the capacity (kind 2) */
                                if (k == 2) {
                                        for (int L = 0; L <= cap + 2; L++) {
                                                int n = 0;
                                                a[n++] = '"';
                                                for (int i = 0; i < L; i++) a[n++] = 'q';
                                                a[n++] = '"';
                                                if (run_args(a, n)) goto out;
                                                a[n++] = ','; a[n++] = '5';
                                                if (run_args(a, n)) goto out;
                                        }
                                }
                        }
out:;
        char tag[64];
        snprintf(tag, sizeof tag, "args-%d", SW.shard);
        return sw_finish(tag);
}
