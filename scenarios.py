"""Scenario plans: for each property and tier, the list of shards (binary + arguments).
Every shard is an exhaustive exploration of one configuration; the union is the
property's explored space (see DESIGN.md section 5)."""
import itertools

NO_VALUES = (2, 3, 4, 5, 6, 7)      # io callbacks saying "no" with -1, 2, 257, 65537, INT_MIN+1, 256 (option value -> engine/world.c io_no_value)
FAIL_VALUES = (2, 3, 4, 5, 6)       # mutex / variable callbacks failing with -1, 256, 65536, INT_MIN, 2 (cb_fail_value)
DEV = r"\r\n\0?=\s\x80a,"       # deviation alphabet: CR LF NUL ? = space 0x80 lower-case-letter comma


PROBE_PROPS = ("C11", "C12", "C14", "C15", "C18")     # plans whose statements quantify over refusal runs of any length and do not carry the C12 stutter monitor


def mcx(tag, ring=1, asan=False, **kw):
    args = []
    probe = (kw.get("prop") in ("C11", "C14") and ring == 1) or (kw.get("prop") in PROBE_PROPS and ring == 1 and (tag.startswith("duplex-r1-sh") or tag.startswith("hold-")))
    if probe and (kw.get("refuse_write") or kw.get("refuse_read")) and "refusal_probe" not in kw:
        kw["refusal_probe"] = 1     # follow the all-refusing continuation wherever a refusal-only call changed parser state (engine/world.c refusal_run_probe)
    for k, v in kw.items():
        flag = "--" + k.replace("_", "-")
        if k in ("D",):
            flag = "--D"
        if k.startswith("codes_") or k.startswith("ecodes_"):
            flag = "--" + k.replace("_", "-")
        args += [flag, v]
    return {"tag": tag, "bin": ("mcxasan_r%d" if asan else "mcx_r%d") % ring, "args": args}


def sweep(tag, name, *args, asan=False):
    return {"tag": tag, "bin": ("swasan_" if asan else "sw_") + name, "args": list(args)}


# ---------------------------------------------------------------- tables

T_AMBIG = "+TA:UW;+TB:UR,vu1rw;+TAB:W;Z:UT"          # ambiguous '+', '+T' (last table entry not among the matches), '+TA' exact-vs-prefix of +TAB
T_APT = ["A:U;AP:UW;+TEST:URWT", "AP:UW;A:U;+TEST:URWT", "+TEST:URWT;AP:UW;A:U", "A:U;+TEST:URWT;AP:UW", "AP:UW;+TEST:URWT;A:U", "+TEST:URWT;A:U;AP:UW"]
T_IMPL = "D:W,i;+O:T,o,vu1rw;+X:U;+OX:R"             # implicit write, only-test, exact/prefix pair


def c01_shards(tier):
    sh = []
    quick = tier == "quick"
    tables = [("ambig", T_AMBIG, "+TABZ"), ("impl", T_IMPL, "+DOX")] + [("apt%d" % i, t, "AP+TES") for i, t in enumerate(T_APT if not quick else T_APT[:2])]
    caps = [(6, 0), (7, 2), (6, 1), (16, 0)] if not quick else [(6, 0), (7, 2), (16, 0)]     # (capacity, layout): 0 separate, 1 shared even, 2 shared odd
    # quick: 2 lines, <=1 deviation, names <=3.  thorough: (2 lines, <=1 deviation, names <=4) and (1 line, <=2 deviations, names <=4)
    variants = [(2, 1, 3)] if quick else [(2, 1, 4), (1, 2, 4)]
    for (tn, t, alpha), (cap, shared), (lines, D, mn) in itertools.product(tables, caps, variants):
        if cap > 7 and D > 1:
            continue    # two deviations inside a 16-byte argument buffer: >10^8 states per table, covered at caps 6 and 7
        sh.append(mcx("lines-%s-cap%d-sh%d-l%dd%d" % (tn, cap, shared, lines, D), prop="C01", table=t, cap=cap, shared=shared, name_alpha=alpha, args_alpha="1" if (quick and tn == "impl") else "1A",
                      max_name=mn, max_args=(cap if quick else cap + 1) if cap <= 7 else 3, D=D, dev=DEV, lines=lines, crlf=1, blank=1, lower=0,
                      refuse_read=1, refuse_write=1, codes_W="OK,ERROR,NEXT,HOLD", codes_R="OK,DATA_OK,DATA_NEXT,ERROR", codes_U="OK,ERROR,LIST,HOLD",
                      codes_T="OK,DATA_OK,ERROR", max_inv=1, act="hold", mon="C01"))
    # cat_init called again on the used object at any point (mid-line, mid-response, while held): the bytes that follow are a new line
    for tn, t, alpha in (("ambig", T_AMBIG, "+TABZ"), ("impl", T_IMPL, "+DOX")):
        sh.append(mcx("lines-%s-reinit" % tn, prop="C01", table=t, cap=6, shared=0, name_alpha=alpha, args_alpha="1", max_name=3, max_args=2, D=0, lines=2 if quick else 3, crlf=1, blank=0,
                      refuse_read=1, refuse_write=1, codes_W="OK,HOLD", codes_R="DATA_OK", codes_U="OK,LIST", codes_T="OK", max_inv=1, act="hold,reinit", mon="C01,C15", liveness=1))
    # unrestricted short byte strings
    for cap in ([6] if quick else [6, 7]):
        sh.append(mcx("free-cap%d" % cap, prop="C01", table=T_AMBIG, cap=cap, gen_mode="free", free_alpha=r"AT+=?\r\0Z,", free_len=7 if quick else 9, lines=2,
                      refuse_read=1, refuse_write=1, codes_W="OK,ERROR", codes_U="OK,ERROR", mon="C01"))
    return sh


PLANS = {}


def plan(prop, tier):
    f = PLANS.get(prop)
    if not f:
        raise SystemExit("no plan for " + prop)
    pl = f(tier)
    # the "bounds" texts describe each property's core space; every shard that ran is listed by tag in coverage.shard_list
    pl["bounds"] = pl["bounds"] + " | plus the scenario and sweep shards added by the seeding rounds: every shard of this run is listed in coverage.shard_list, the dimensions are described in DESIGN.md 10.8 and 11.2"
    return pl


def p_c01(tier):
    sh = c01_shards(tier)
    # response formatting with the capacity swept through every alignment (a value fits, the separator does not, ...): one result code per line
    sh += sw_shards("bounds", "C01", tier, 8, "--family", "format", tagp="format-align")
    sh.append(failing_events("lines-failing-events", 1, "C01", "C01"))
    for cap in (6, 8, 10):
        sh.append(mcx("lines-ubuf0-cap%d" % cap, prop="C01", table="+W:W;+U:U||+u:vu1ro;+E:vu1ro", cap=cap, shared=0, ubuf=0, name_alpha="+WUX", max_name=2, args_alpha="1", max_args=1, suffix_mask=5, lines=2, crlf=0,
                      refuse_read=0, refuse_write=1, codes_W="OK,ERROR", codes_U="OK", max_inv=1, ev="+u:R,+E:R", act="trigger", trig_budget=2, mon="C01"))
    sh += sw_shards("tables", "C01", tier, 3, "--family", "firstbyte", tagp="firstbyte")
    # the command list (several units, then the closing result code) while unsolicited events are triggered, flushed and refused around it
    sh += [s for s in c11_shards(tier, prop="C01", mon="C01") if s["tag"].endswith("-run")]
    return {"shards": sh, "require": ["lines_done", "ambiguous_eq", "ambiguous_lf", "overlong", "drain_err", "notfound", "lines_hold"],
            "technique": "explicit-state model checking of the real parser (DFS with state matching over all input bytes, io refusals, handler codes)",
            "bounds": ("tables ambig/impl/A-AP-+TEST (2 orders); cap 6,16 shared+separate; grammar lines with <=1 deviation from 9 bytes, names <=3, 2 lines; all byte strings <=7 over 10 symbols" if tier == "quick" else
                       "tables ambig/impl/A-AP-+TEST (6 orders); cap 6,7(odd shared),16; grammar lines: 2 lines with <=1 deviation and 1 line with <=2 deviations, names <=4; all byte strings <=9 over 10 symbols"),
            "assumptions": ["handlers eventually return a terminal code (at most 1 NEXT per line)", "descriptor inside the supported domain"]}


PLANS["C01"] = p_c01


# ---------------------------------------------------------------- C10 codes

ALLC_WU = "OK,ERROR,DATA_OK,DATA_NEXT,NEXT,HOLD,HEXIT_OK,HEXIT_ERR,LIST,-2,9"
ALLC_RT = "OK,ERROR,DATA_OK,DATA_NEXT,NEXT,HOLD,LIST"
ALLE = "OK,ERROR,DATA_OK,DATA_NEXT,NEXT,HEXIT_OK,HEXIT_ERR,LIST,-2,9"
T_CODES = "+W:W;+V:W,vu1rw/w,vi1ro/w,vx2rw/w;+R:R,vu1rw/r,vu1wo/r,vu1ro/r;+N:R;+U:U;+T:T,vu1rw@x/r,vi1ro/r,D=dd;+M:T,D=m\\nn\\r||+e:R,vu1ro/r,vi1rw;+f:T,vu1ro/r,vx1wo@y,D=ee;+g:R;+o:R,o"


def c10_shards(tier, mon="C10", prop="C10"):
    quick = tier == "quick"
    sh = []
    inv = 5 if quick else 8
    for tok in (0, 1):
        for shared in ((0, 1) if tok == 0 else (0, 2)):
            # command machine, one command kind per shard (layouts: separate, shared even, shared odd)
            for nm, alpha, sm in (("W", "+WV", 4), ("R", "+RN", 2), ("U", "+U", 1), ("T", "+TM", 8)):
                sh.append(mcx("codes-cmd-%s-tok%d-sh%d" % (nm, tok, shared), prop=prop, table=T_CODES, cap=40, shared=shared, name_alpha=alpha, max_name=2,
                              args_alpha="1,", max_args=3, suffix_mask=sm, lines=1, refuse_read=1, refuse_write=1,
                              codes_W=ALLC_WU, codes_U=ALLC_WU, codes_R=ALLC_RT, codes_T=ALLC_RT, max_inv=inv, tok=tok, varcb_fail=1, act="hold", mon=mon))
            # event machine
            # separate buffers of different sizes: the event handlers must be told the capacity of *their* buffer
            for ub in ((40,) if shared else (40, 34, 48)):   # separate buffers of equal / smaller / larger size
                sh.append(mcx("codes-evt-tok%d-sh%d-ub%d" % (tok, shared, ub), prop=prop, table=T_CODES, cap=40, shared=shared, ubuf=ub, name_alpha="+U", max_name=2, suffix_mask=1,
                              lines=1, refuse_read=1, refuse_write=1, codes_U="OK,HOLD", ecodes_R=ALLE, ecodes_T=ALLE, max_inv=inv, tok=tok, varcb_fail=1,
                              ev="+e:R,+f:T,+g:R,+o:R", act="trigger,hold", trig_budget=2, mon=mon))
    # the command list (PRINT_CMD_LIST_OK) over every command shape at capacities 32, 9 (exact fit of a line) and 8 (one short)
    sh += sw_shards("describe", prop, tier, 4, "--family", "shapes", "--pairs", 0, tagp="shapes")
    # runs of 254..70000 NEXT / DATA_NEXT from one handler of each kind, ended by OK or ERROR (eager environment)
    sh += sw_shards("args", prop, tier, 8, "--family", "nextrun", tagp="nextrun")
    # token mode 2: every other invocation hands back an empty response (DATA_NEXT / DATA_OK must still emit the empty line)
    for nm, alpha, sm in (("R", "+RN", 2), ("T", "+TM", 8)):
        sh.append(mcx("codes-cmd-%s-emptytok" % nm, prop=prop, table=T_CODES, cap=40, shared=0, name_alpha=alpha, max_name=2, args_alpha="1,", max_args=3, suffix_mask=sm, lines=1,
                      refuse_read=1, refuse_write=1, codes_R=ALLC_RT, codes_T=ALLC_RT, max_inv=inv, tok=2, varcb_fail=1, act="hold", mon=mon))
    sh.append(mcx("codes-evt-emptytok", prop=prop, table=T_CODES, cap=40, shared=1, name_alpha="+U", max_name=2, suffix_mask=1, lines=1, refuse_read=1, refuse_write=1, codes_U="OK",
                  ecodes_R=ALLE, ecodes_T=ALLE, max_inv=inv, tok=2, varcb_fail=1, ev="+e:R,+f:T,+g:R", act="trigger", trig_budget=2, mon=mon))
    # variable callbacks failing with -1, 256, 65536, INT_MIN, 2 instead of 1 (any non-zero value is a failure)
    for fv in FAIL_VALUES:
      for nm, alpha, sm in (("W", "+WV", 4), ("R", "+RN", 2)):
        sh.append(mcx("codes-cmd-%s-varcb-fail%d" % (nm, fv), prop=prop, table=T_CODES, cap=40, shared=1, name_alpha=alpha, max_name=2, args_alpha="1,", max_args=3, suffix_mask=sm, lines=1,
                      refuse_read=1, refuse_write=1, codes_W="OK,ERROR,NEXT", codes_R="OK,DATA_OK,DATA_NEXT", max_inv=2, tok=0, varcb_fail=fv, mon=mon))
    return sh


def p_c10(tier):
    return {"shards": c10_shards(tier), "require": ["lines_done", "ev_done", "list_lines", "lines_hold"],
            "technique": "explicit-state model checking: every return-code sequence (<=%d non-terminal codes) of every handler kind in both machines, all io refusal patterns" % (5 if tier == "quick" else 8),
            "bounds": "all 9 codes plus -2 and 9 for write/run and event handlers; read/test command handlers: the 7 codes the statement defines; variable callbacks failing at every position; buffers shared and separate; token and pass-through handlers",
            "assumptions": ["HOLD_EXIT_* and out-of-range codes from command read/test handlers and HOLD from event handlers are outside the statement and not generated"]}


PLANS["C10"] = p_c10

# ---------------------------------------------------------------- C11 duplex

T_DUP = "+S:R,vu1rw,vi1ro;Z:U;+H:W||+u:vu1ro,vu1ro;+h:R,vu1ro,vi1ro;+t:T,vu1ro,D=d;+d;+w:vu1ro,vb12ro"   # +w: text does not fit (fails while formatting)   # every formatted response has two variables
EV_DUP = "+u:R,+h:R,+t:T,+d:R"


def duplex(tag, ring, shared, budget, prop, mon, extra=None, asan=False):
    kw = dict(prop=prop, table=T_DUP, cap=20, shared=shared, name_alpha="+SZH", max_name=2, args_alpha="1", max_args=1, suffix_mask=7, lines=1, crlf=1,
              refuse_read=1, refuse_write=1, codes_R="OK,DATA_OK,DATA_NEXT", codes_U="OK,LIST", codes_W="OK,HOLD", ecodes_R="OK,DATA_OK,DATA_NEXT,HEXIT_OK,HEXIT_ERR,ERROR",
              ecodes_T="OK,DATA_OK,DATA_NEXT,HEXIT_ERR,ERROR", max_inv=1, tok=1, ev=EV_DUP, act="trigger,hold", trig_budget=budget, h_trigger=1, mon=mon)
    if extra:
        kw.update(extra)
    return mcx(tag, ring=ring, asan=asan, **kw)


# A small separate unsolicited buffer while the command machine's cursor is far beyond its size
# (long response text, long argument list); two-variable events.
T_DUPBIG = "+SSSSSSSSSSSS:R,vu1rw,vi1ro;+H:W,vu1rw,vu1rw,vu1rw;Z:U||+u:vu1ro,vu1ro;+h:R,o,vu1ro,vi1ro;+d"   # +h is only_test: that flag gates input requests, not events


T_DUPTEST = "+SSSSSSSSSSSSSSSSSSSSSSSSSSSSSSSSSSSSSS:R,vu1rw;+H:W;Z:U||+t:T,vu1ro,vu1ro;+u:vu1ro,vu1ro"    # TEST text of +t is 26 bytes, the READ response of +S... 41


def duplex_cursor_test(tag, ring, prop, mon, extra=None):
    kw = dict(prop=prop, table=T_DUPTEST, cap=48, shared=0, ubuf=30, name_alpha="+SHZ", max_name=2, args_alpha="1", max_args=1, suffix_mask=7, lines=1,
              refuse_read=1, refuse_write=1, codes_R="DATA_OK,HOLD", codes_W="OK,HOLD", codes_U="OK", ecodes_T="DATA_OK", max_inv=1,
              ev="+t:T,+u:R", act="trigger,hold", trig_budget=2, mon=mon)
    if extra:
        kw.update(extra)
    return mcx(tag, ring=ring, **kw)


def duplex_cursor(tag, ring, prop, mon, budget=2, extra=None, asan=False):
    kw = dict(prop=prop, table=T_DUPBIG, cap=34, shared=0, ubuf=9, name_alpha="+SHZ", max_name=2, args_alpha="1,", max_args=5, suffix_mask=7, lines=1,
              refuse_read=1, refuse_write=1, codes_R="DATA_OK,OK", codes_W="OK,HOLD", codes_U="OK", ecodes_R="DATA_OK,OK", max_inv=1,
              ev="+u:R,+h:R,+d:R", act="trigger,hold", trig_budget=budget, mon=mon)
    if extra:
        kw.update(extra)
    return mcx(tag, ring=ring, asan=asan, **kw)


# Two lines, the first one's handler triggers an event, the second one carries an over-long / multi-variable argument list
# (shared buffer: the capacity boundary of the command half is the first byte of the event half).
T_OVER = "+W:W;+V:W,vu1rw,vi1rw,vu1rw||+u:vu1ro,vu1ro;+s:vs6ro;+d;+f:vu1ro/r"   # +s: string holding LF, quote, backslash; +d: fails at once; +f: variable read callback may fail


def duplex_overlong(tag, ring, shared, prop, mon, extra=None):
    kw = dict(prop=prop, table=T_OVER, cap=7, shared=shared, name_alpha="+WV", max_name=2, args_alpha="1,", max_args=8, suffix_mask=4, lines=2,
              refuse_read=1, refuse_write=1, codes_W="OK", max_inv=1, ev="+u:R", h_trigger=1, act="trigger", trig_budget=2, mon=mon)
    if extra:
        kw.update(extra)
    return mcx(tag, ring=ring, **kw)


# An event on the very command the input line addresses (write form only, read-only variables: nothing changes value)
T_SAME = "+X:vu1ro,vu1ro;+Y:U"


def same_cmd(tag, ring, prop, mon, extra=None):
    kw = dict(prop=prop, table=T_SAME, cap=12, shared=ring - 1, name_alpha="+XY", max_name=2, args_alpha="1,", max_args=3, suffix_mask=5, lines=1,
              refuse_read=1, refuse_write=1, codes_U="OK", max_inv=1, ev="+X:R,+X:T", act="trigger", trig_budget=2, mon=mon)
    if extra:
        kw.update(extra)
    return mcx(tag, ring=ring, **kw)


T_FULL = ";".join(["+CA:UR,vu1ro"] + ["+C%c:U" % (66 + i) for i in range(23)]) + "||+e:vu1ro"   # 24 registered commands = 4 x 6 (the event command is not registered)


# Events that fail at every stage: nothing to print (+d), read text does not fit (+w), TEST description does not fit with (+v) and
# without (+z) variables, variable read callback fails (+f): none of them may reach the command machine.
T_FAIL = "+W:W,vu1rw;+U:U||+d;+w:vu1ro,vb12ro;+z:T,D=zzzzzzzzzzzzzzzzzzzz;+v:T,vu1ro,D=zzzzzzzzzzz;+f:vu1ro/r"
EV_FAIL = "+d:R,+w:R,+z:T,+v:T,+f:R,+d:T"


def failing_events(tag, ring, prop, mon, extra=None):
    kw = dict(prop=prop, table=T_FAIL, cap=16, shared=ring - 1, name_alpha="+WU", max_name=2, args_alpha="1", max_args=2, suffix_mask=5, lines=2, crlf=0,
              refuse_read=1, refuse_write=1, codes_W="OK,HOLD", codes_U="OK", ecodes_T="OK,DATA_OK", max_inv=1, varcb_fail=1, ev=EV_FAIL, act="trigger,hold", trig_budget=2, mon=mon)
    if extra:
        kw.update(extra)
    return mcx(tag, ring=ring, **kw)


def c11_shards(tier, prop="C11", mon="C11"):
    quick = tier == "quick"
    sh = []
    for ring in ((1, 2) if quick else (1, 2, 3)):
        for shared in (0, 1):
            # one shard per request form of the single command line (run -> command list, read -> multi-unit response, write -> hold): a partition of the space
            for sm, nm in ((1, "run"), (2, "read"), (4, "write")):
                sh.append(duplex("duplex-r%d-sh%d-%s" % (ring, shared, nm), ring, shared, 3 if quick else 4, prop, mon, extra=dict(suffix_mask=sm)))
    # events raised from inside the io read callback at the moment it has no byte to deliver
    for ring in (1, 2):
        sh.append(duplex("duplex-r%d-io-trigger" % ring, ring, ring - 1, 2, prop, mon, extra=dict(io_trigger=1, h_trigger=0, act="hold", suffix_mask=3)))
    if quick:
        sh.append(duplex("duplex-r3-sh0-read", 3, 0, 3, prop, mon, extra=dict(suffix_mask=2)))
    # odd-sized shared buffer, and separate buffers of different sizes (smaller budget: the layouts differ only in capacities)
    sh.append(duplex("duplex-r1-oddshared", 1, 2, 2 if quick else 3, prop, mon))
    sh.append(duplex("duplex-r2-ubuf18", 2, 0, 2 if quick else 3, prop, mon, extra=dict(ubuf=18)))
    for ring in (1, 2):
        sh.append(duplex_cursor("duplex-cursor-r%d" % ring, ring, prop, mon, budget=2 if quick else 3))
        sh.append(duplex_cursor_test("duplex-cursor-test-r%d" % ring, ring, prop, mon))
        sh.append(duplex_overlong("duplex-overlong-r%d" % ring, ring, ring % 2 + 1, prop, mon))
        sh.append(same_cmd("duplex-samecmd-r%d" % ring, ring, prop, mon))
    if prop == "C11":
        sh += scale_shards("C11")
    for ring in (1, 2):
        sh.append(failing_events("duplex-failing-events-r%d" % ring, ring, prop, mon))
    # the match table fills the command half completely (24 commands, half capacity 6): the byte after it is the first byte of the event half
    sh.append(mcx("duplex-fulltable-even", ring=1, prop=prop, table=T_FULL, cap=6, shared=1, name_alpha="+CA", max_name=3, args_alpha="1", max_args=1, suffix_mask=3, lines=2, crlf=0,
                  refuse_read=1, refuse_write=1, codes_U="OK", codes_R="DATA_OK", max_inv=1, ev="+e:R", act="trigger", trig_budget=2, mon=mon))
    sh.append(mcx("duplex-fulltable-odd", ring=2, prop=prop, table=T_FULL, cap=6, shared=2, name_alpha="+CA", max_name=3, args_alpha="1", max_args=1, suffix_mask=3, lines=2, crlf=0,
                  refuse_read=1, refuse_write=1, codes_U="OK", codes_R="DATA_OK", max_inv=1, ev="+e:R", act="trigger", trig_budget=2, mon=mon))
    # back-pressure signalled with other values than 0 (-1, 2, 257, 65537, INT_MIN+1, 256): anything but 1 means "not written"
    for rw in NO_VALUES:
        sh.append(duplex("duplex-r1-sh1-refuse%d" % rw, 1, 1, 2, prop, mon, extra=dict(refuse_write=rw)))
    return sh


def p_c11(tier):
    return {"shards": c11_shards(tier), "require": ["units_cmd", "units_evt", "both_want_flush", "list_lines", "lines_hold"],
            "technique": "explicit-state model checking of the two flush engines: all interleavings of cat_service, triggers (also from inside handlers), input arrival, write refusals",
            "bounds": "ring capacity 1,2%s; trigger budget %d; events auto-READ, handler-READ(DATA_NEXT), TEST+description, fails-at-once; commands: multi-unit READ, command list, held WRITE"
                      % ("" if tier == "quick" else ",3", 3 if tier == "quick" else 4),
            "assumptions": ["event commands are distinct from the commands reachable from the input stream"]}


PLANS["C11"] = p_c11

# ---------------------------------------------------------------- C12 schedule independence


def p_c12(tier):
    sh = []
    # premise: a refused-only call changes nothing (checked in every state), on the C01 and C10 families
    for s in c01_shards(tier):
        a = list(s["args"]); a[a.index("--mon") + 1] = "C12"; a[a.index("--prop") + 1] = "C12"
        sh.append({"tag": "stutter-" + s["tag"], "bin": s["bin"], "args": a})
    for s in c10_shards(tier, mon="C12", prop="C12"):
        if "-sh0" in s["tag"] and "ub34" not in s["tag"] and "ub48" not in s["tag"]:
            sh.append({"tag": "stutter-" + s["tag"], "bin": s["bin"], "args": s["args"]})
    # black box: failed reads scribble over *ch; every schedule must still agree with the reference
    quick = tier == "quick"
    for tn, t, alpha in (("ambig", T_AMBIG, "+TABZ"), ("impl", T_IMPL, "+DOX")):
        sh.append(mcx("scribble-%s" % tn, prop="C12", table=t, cap=6, name_alpha=alpha, args_alpha="1A", max_name=3 if quick else 4, max_args=7, D=1, dev=DEV,
                      lines=2, crlf=1, blank=1, refuse_read=1, refuse_write=1, scribble=1, codes_W="OK,ERROR,NEXT", codes_R="OK,DATA_OK,DATA_NEXT,ERROR",
                      codes_U="OK,ERROR,LIST", codes_T="OK,DATA_OK,ERROR", max_inv=1, mon="C12"))
    # "no byte yet" signalled by -1 and by 2 instead of 0 (cat.h: only 1 means a byte was read), with and without scribbling over the character cell
    for rr in NO_VALUES:
        for scr in ((0, 1) if rr < 4 else (0,)):
            sh.append(mcx("noread%d-scribble%d" % (rr, scr), prop="C12", table=T_AMBIG, cap=6, name_alpha="+TABZ", args_alpha="1A", max_name=3, max_args=7, D=1 if scr else 0, dev=DEV,
                          lines=2, crlf=1, blank=1, refuse_read=rr, refuse_write=1, scribble=scr, codes_W="OK,ERROR", codes_R="OK,DATA_OK", codes_U="OK,ERROR", codes_T="OK", max_inv=1, mon="C12"))
    sh += [s for s in c11_shards(tier, prop="C12", mon="C12") if s["tag"].endswith("-run") or "refuse" in s["tag"] or "cursor" in s["tag"]]
    for ring in (1, 2):
        sh.append(duplex_overlong("overlong-with-event-r%d" % ring, ring, ring % 2 + 1, "C12", "C12"))
        sh.append(duplex_overlong("overlong-with-event-sep-r%d" % ring, ring, 0, "C12", "C12"))
    return {"shards": sh, "require": ["lines_done", "stutters_checked"],
            "technique": "explicit-state model checking: stutter premise (refused io leaves the whole parser state unchanged) in every reachable state, plus all schedules against the reference with failed reads scribbling over the character cell",
            "bounds": "input families of C01 and C10; refusal runs of any length are covered by the self-loop of the stutter step",
            "assumptions": ["event-free runs for full-trace equality; with events the exactly-once delivery under back-pressure is part of C11"]}


PLANS["C12"] = p_c12

# ---------------------------------------------------------------- C13 queue

T_Q = "H:W;K:U;+r:Rd,vu1ro||+a:vu1ro;+b:R,vu1ro;+c:T,D=cc;+d;+w:vu1ro,vb12ro"


def c13_shards(tier, prop="C13", mon="C13"):
    quick = tier == "quick"
    sh = []
    ev4 = "+a:R,+b:R,+c:T,+d:R"
    ev5 = ev4 + ",+w:R"
    # (i) event machine alone, no command traffic: full fixpoint, four event kinds, every capacity
    for ring in (1, 2, 3, 8):
        evs = (ev5 if ring < 3 else ev4) if ring < 8 else "+a:R,+d:R"
        sh.append(mcx("queue-alone-r%d" % ring, ring=ring, prop=prop, table=T_Q, cap=12, shared=ring % 2, gen_mode="none", refuse_write=1,
                      ecodes_R="OK,DATA_OK,DATA_NEXT,HEXIT_OK,ERROR", ecodes_T="OK,HEXIT_ERR,ERROR", max_inv=1, tok=1, ev=evs, act="trigger,queries", trig_budget=0, mon=mon))
    # (0) bounded searches first (trigger budget, one line): they terminate even if a change makes the state space infinite
    for ring in (1, 2, 3):
        sh.append(mcx("queue-bounded-r%d" % ring, ring=ring, prop=prop, table=T_Q, cap=12, shared=ring % 2, name_alpha="HK", max_name=1, args_alpha="1", max_args=0, suffix_mask=5, lines=1,
                      refuse_read=1, refuse_write=1, codes_W="HOLD,OK", codes_U="OK", ecodes_R="OK,DATA_OK,DATA_NEXT,HEXIT_OK,HEXIT_ERR", ecodes_T="OK,HEXIT_ERR,LIST", max_inv=1, tok=1,
                      ev=(ev4 if ring < 3 else "+a:R,+b:R,+d:R") + ",+r:R", act="trigger,hold,queries", trig_budget=3, mon=mon))     # +r: registered but disabled (events do not consult the flag)
    # cat_init called again with events queued and in progress: the queue is empty afterwards
    for ring in (1, 2):
        sh.append(mcx("queue-reinit-r%d" % ring, ring=ring, prop=prop, table=T_Q, cap=12, shared=ring % 2, gen_mode="none", refuse_write=1,
                      ecodes_R="OK,DATA_OK,DATA_NEXT", ecodes_T="OK", max_inv=1, tok=1, ev="+a:R,+b:R,+d:R", act="trigger,queries,reinit", trig_budget=3, mon=mon))
    sh.append(mcx("queue-bounded-r1-emptytok", ring=1, prop=prop, table=T_Q, cap=12, shared=1, name_alpha="HK", max_name=1, args_alpha="1", max_args=0, suffix_mask=1, lines=1,
                  refuse_read=1, refuse_write=1, codes_U="OK", ecodes_R="DATA_NEXT,DATA_OK,OK", ecodes_T="DATA_NEXT,DATA_OK", max_inv=2, tok=2, ev="+b:R,+c:T,+a:R", act="trigger,queries", trig_budget=2, mon=mon))
    # a (non-re-entrant) mutex configured: handlers ask the unprotected queries while cat_service holds the lock
    sh.append(mcx("queue-bounded-r2-mutex", ring=2, prop=prop, table=T_Q, cap=12, shared=0, name_alpha="HK", max_name=1, args_alpha="1", max_args=0, suffix_mask=5, lines=1,
                  refuse_read=1, refuse_write=1, codes_W="HOLD,OK", codes_U="OK", ecodes_R="OK,DATA_OK", ecodes_T="OK", max_inv=1, tok=1,
                  ev="+a:R,+b:R,+d:R", act="trigger,hold,queries", trig_budget=2, mutex=1, mon=mon))
    # long histories: 100000 trigger attempts per run at capacities 1, 2, 3, 5, 8 (counter wrap-arounds; capacities that do not divide 2^16)
    for ring in (1, 2, 3, 5, 8):
        for i in range(6 if not quick else 3):
            sh.append({"tag": "longrun-r%d-%d" % (ring, i), "bin": "sw_longrun_r%d" % ring, "args": ["--prop", prop, "--tier", tier, "--shard", i * (1 if not quick else 2), "--nshards", 6]})
    # (ii) with command traffic (a held command and an answering one)
    for ring in (1, 2, 3):
        for shared in (0, 1):
            full = (ring == 1) or not quick
            sh.append(mcx("queue-traffic-r%d-sh%d" % (ring, shared), ring=ring, prop=prop, table=T_Q, cap=12, shared=shared, name_alpha="HK", max_name=2, args_alpha="1", max_args=0,
                          suffix_mask=5, lines=0 if full else 1, refuse_read=1, refuse_write=1, codes_W="HOLD,OK", codes_U="OK", ecodes_R="OK,DATA_OK,DATA_NEXT,HEXIT_OK,HEXIT_ERR", ecodes_T="OK",
                          max_inv=1, tok=1, ev=("+a:R,+b:R,+d:R" if ring < 3 else "+a:R,+d:R"), act="trigger,hold,queries", trig_budget=0 if full else ring + 2, mon=mon))
    for ring in (1, 2):
        sh.append(duplex_cursor("queue-cursor-r%d" % ring, ring, prop, mon, budget=2, extra=dict(act="trigger,hold,queries")))
        sh.append(same_cmd("queue-samecmd-r%d" % ring, ring, prop, mon, extra=dict(act="trigger,queries")))
        if prop == "C13":
            sh.append(same_cmd("queue-samecmd-live-r%d" % ring, ring, prop, mon + ",C15", extra=dict(act="trigger", liveness=1)))
    if not quick:
        # larger capacities with command traffic: fixpoints at 4 and 5 (the space triples per slot), capacity 8 bounded by one line and nine triggers (enough to fill and overflow the ring)
        for ring in (4, 5):
            sh.append(mcx("queue-traffic-r%d" % ring, ring=ring, prop=prop, table=T_Q, cap=12, shared=0, name_alpha="HK", max_name=2, args_alpha="1", max_args=0, suffix_mask=5, lines=0,
                          refuse_read=1, refuse_write=1, codes_W="HOLD,OK", codes_U="OK", ecodes_R="OK", max_inv=1, tok=1, ev="+a:R,+d:R", act="trigger,hold,queries", trig_budget=0, mon=mon))
        sh.append(mcx("queue-traffic-r8-bounded", ring=8, prop=prop, table=T_Q, cap=12, shared=0, name_alpha="HK", max_name=2, args_alpha="1", max_args=0, suffix_mask=5, lines=1,
                      refuse_read=1, refuse_write=1, codes_W="HOLD,OK", codes_U="OK", ecodes_R="OK", max_inv=1, tok=1, ev="+a:R,+d:R", act="trigger,hold,queries", trig_budget=9, mon=mon))
    return sh


def p_c13(tier):
    return {"shards": c13_shards(tier), "require": ["ev_accepted", "ev_full", "ev_done", "ev_silent", "lines_hold"],
            "technique": "explicit-state model checking to the full fixpoint (no trigger budget, unbounded lines): refinement of an abstract bounded FIFO with hidden pop/finish steps",
            "bounds": "event machine alone: capacities 1,2,3 with four or five event kinds, capacity 8 with two kinds (fixpoints); with command traffic (one held command, one answering command): fixpoints at capacities 1,2,3%s; write refusals" % ("" if tier == "quick" else ", 4, 5 and capacity 8 bounded by one line and nine triggers"),
            "assumptions": ["event commands distinct from input-reachable commands"]}


PLANS["C13"] = p_c13

# ---------------------------------------------------------------- C14 hold

T_HOLD = "+W:W;+R:R,vu1rw;+U:U;+T:T,vu1rw||+e:R,vu1ro;+x:R,o;+y:T"     # +x is only_test: the flag gates input requests, not events


def c14_shards(tier, prop="C14", mon="C14"):
    quick = tier == "quick"
    sh = []
    for nm, alpha, sm in (("W", "+W", 4), ("R", "+R", 2), ("U", "+U", 1), ("T", "+T", 8)):
        for ring in ((1, 2) if quick else (1, 2, 3)):
            sh.append(mcx("hold-%s-r%d" % (nm, ring), ring=ring, prop=prop, table=T_HOLD, cap=16, shared=(ring - 1) % 3, name_alpha=alpha, max_name=2, args_alpha="1", max_args=1,
                          suffix_mask=sm, lines=2 if quick else 3, crlf=1, refuse_read=1, refuse_write=1, codes_W="HOLD,OK", codes_R="HOLD,DATA_OK", codes_U="HOLD,OK",
                          codes_T="HOLD,OK", ecodes_R="OK,HEXIT_OK,HEXIT_ERR,DATA_OK,ERROR,LIST,9", ecodes_T="OK,ERROR,HEXIT_OK,LIST", max_inv=1, tok=1, ev="+e:R,+x:R,+y:T", act="trigger,hold", trig_budget=2 if quick else 4,
                          h_hold_exit=1, mon=mon))
    for rw in NO_VALUES:
        sh.append(mcx("hold-U-refuse%d" % rw, ring=1, prop=prop, table=T_HOLD, cap=16, shared=0, name_alpha="+U", max_name=2, args_alpha="1", max_args=1,
                      suffix_mask=1, lines=2, refuse_read=1, refuse_write=rw, codes_U="HOLD,OK", ecodes_R="OK,HEXIT_ERR", max_inv=1, tok=1, ev="+e:R,+x:R", act="trigger,hold", trig_budget=1, mon=mon))
    sh.append(failing_events("hold-failing-events", 1, prop, mon))
    # hold entered on a later invocation of a read / test handler (after DATA_NEXT or NEXT), then released
    for nm, alpha, sm in (("R", "+R", 2), ("T", "+T", 8)):
        sh.append(mcx("hold-%s-late" % nm, ring=1, prop=prop, table=T_HOLD, cap=16, shared=0, name_alpha=alpha, max_name=2, args_alpha="1", max_args=1,
                      suffix_mask=sm, lines=2, refuse_read=1, refuse_write=1, codes_R="DATA_NEXT,NEXT,HOLD,DATA_OK", codes_T="DATA_NEXT,NEXT,HOLD,OK", ecodes_R="OK,HEXIT_ERR", max_inv=2, tok=1,
                      ev="+e:R", act="trigger,hold", trig_budget=1, mon=mon))
    # cat_init called again at any point, also while held and after a release request: no hold, no owed result code, no queued event survives
    for nm, alpha, sm in (("U", "+U", 1), ("R", "+R", 2)):
        sh.append(mcx("hold-%s-reinit" % nm, ring=1, prop=prop, table=T_HOLD, cap=16, shared=0, name_alpha=alpha, max_name=2, args_alpha="1", max_args=1,
                      suffix_mask=sm, lines=2, refuse_read=1, refuse_write=1, codes_U="HOLD,OK", codes_R="HOLD,DATA_OK", ecodes_R="OK,HEXIT_OK,DATA_NEXT", max_inv=1, tok=1, ev="+e:R,+x:R", act="trigger,hold,reinit", trig_budget=1, mon=mon + ",C15", liveness=1))
    # the same with a mutex interface configured (no fault injection): a spurious or repeated release must leave the lock balanced
    for nm, alpha, sm in (("W", "+W", 4), ("U", "+U", 1)):
        sh.append(mcx("hold-%s-mutex" % nm, ring=1, prop=prop, table=T_HOLD, cap=16, shared=0, name_alpha=alpha, max_name=2, args_alpha="1", max_args=1,
                      suffix_mask=sm, lines=2, refuse_read=1, refuse_write=1, codes_W="HOLD,OK", codes_U="HOLD,OK", ecodes_R="OK,HEXIT_OK,HEXIT_ERR,DATA_OK,ERROR",
                      ecodes_T="OK,HEXIT_OK", max_inv=1, tok=1, ev="+e:R,+x:R", act="trigger,hold,queries", trig_budget=2, mutex=1, mon=mon + ",C16"))
    return sh


def p_c14(tier):
    return {"shards": c14_shards(tier), "require": ["lines_hold", "hold_yes", "ev_done"],
            "technique": "explicit-state model checking: every placement of release requests (main context, from inside an event handler, event handler return codes), spurious and repeated requests, events and refusals",
            "bounds": "four handler kinds entering hold; %d lines queued; trigger budget %d; queue capacities 1,2%s" % ((2, 2, "") if tier == "quick" else (3, 4, ",3 (the last with an odd-sized shared buffer)")),
            "assumptions": ["between an accepted release request and the first byte of the result code cat_is_hold / cat_hold_exit may answer either way"]}


PLANS["C14"] = p_c14

# ---------------------------------------------------------------- C15 quiescence


def p_c15(tier):
    sh = []
    for s in c11_shards(tier, prop="C15", mon="C15") + c13_shards("quick", prop="C15", mon="C15") + c14_shards(tier, prop="C15", mon="C15"):
        a = list(s["args"]) + ["--liveness", "1"]
        sh.append({"tag": "live-" + s["tag"], "bin": s["bin"], "args": a})
    for s in c01_shards("quick"):
        if "cap6-sh0-l2d1" in s["tag"] or "free" in s["tag"]:
            a = list(s["args"]); a[a.index("--mon") + 1] = "C15"; a[a.index("--prop") + 1] = "C15"
            sh.append({"tag": "live-" + s["tag"], "bin": s["bin"], "args": a + ["--liveness", "1"]})
    for rr in (2, 3):
        sh.append(mcx("live-noread%d" % rr, prop="C15", table=T_AMBIG, cap=6, name_alpha="+TABZ", args_alpha="1", max_name=3, max_args=2, D=0, lines=2, crlf=1, blank=1,
                      refuse_read=rr, refuse_write=1, codes_W="OK,ERROR", codes_R="OK,DATA_OK", codes_U="OK", codes_T="OK", max_inv=1, mon="C15", liveness=1))
    # command lists and responses at exact / one-short capacities, long names: the eager driver reports a parser that never becomes quiescent
    sh += sw_shards("describe", "C15", tier, 8, "--family", "shapes", "--pairs", 1, tagp="shapes")
    sh += sw_shards("bounds", "C15", tier, 4, "--family", "names", tagp="names")
    sh += sw_shards("bounds", "C15", tier, 4, "--family", "format", tagp="format")
    sh += sw_shards("tables", "C15", tier, 26, "--family", "crowd", tagp="crowd")
    return {"shards": sh, "require": ["ok_repeat_checked", "ev_silent", "ev_done", "lines_done"],
            "technique": "explicit-state model checking: OK-is-stable checked on every OK state; liveness by following the quiet eager continuation from every reachable state (cycle detection + distance bound)",
            "bounds": "state spaces of the duplex, queue (fixpoint), hold and lines scenarios",
            "assumptions": ["an unreleased hold is exempt from liveness (BUSY by design until cat_hold_exit)"]}


PLANS["C15"] = p_c15

# ---------------------------------------------------------------- C16 mutex


def c16_shards(tier):
    quick = tier == "quick"
    sh = []
    for ring in (1, 2):
        for sm, nm in ((1, "run"), (2, "read"), (4, "write")):
            sh.append(duplex("mutex-%s-r%d" % (nm, ring), ring, ring - 1, 2 if quick else 3, "C16", "C16",
                             extra=dict(mutex=1, faults=1, h_trigger=0, act="trigger,hold,queries", suffix_mask=sm, ev="+u:R,+h:R,+t:T,+d:R,+w:R", crlf=0, max_name=2,
                                        ecodes_R="OK,DATA_OK,DATA_NEXT,HEXIT_OK,HEXIT_ERR", ecodes_T="OK,DATA_OK,HEXIT_OK,HEXIT_ERR", codes_T="OK,DATA_OK", codes_R="OK,DATA_OK,DATA_NEXT")))
    # a second parser object with a mutex of its own: handlers of the first raise events on it (its lock is taken and released once, whoever calls)
    sh.append(duplex("mutex-run-r1-2obj", 1, 0, 1, "C16", "C16",
                     extra=dict(mutex=1, faults=1, h_trigger=0, act="trigger,hold", suffix_mask=3, ev="+u:R,+h:R", crlf=0, max_name=2, interfere=2,
                                ecodes_R="OK,DATA_OK", ecodes_T="OK", codes_T="OK", codes_R="OK,DATA_OK")))
    sh.append(mcx("mutex-list-disabled", ring=1, prop="C16", table="+S:R,vu1rw;+X:Ud;Z:U;+Y:Ud|!+G:U;+G2:UR|+K:U||+u:vu1ro", cap=20, shared=0, name_alpha="+SZ", max_name=2, args_alpha="1", max_args=0, suffix_mask=1, lines=1,
                  refuse_read=1, refuse_write=1, codes_R="OK", codes_U="LIST,OK", max_inv=1, ev="+u:R", act="trigger", trig_budget=1, mutex=1, faults=1, mon="C16"))
    sh.append(mcx("mutex-implicit-event", ring=2, prop="C16", table="+S:R,vu1rw;D:W,i,vu1rw;Z:U||+u:vu1ro", cap=20, shared=0, name_alpha="+SZD", max_name=2, args_alpha="1", max_args=1, suffix_mask=3, lines=1,
                  refuse_read=1, refuse_write=1, codes_R="OK,DATA_OK", codes_U="OK", codes_W="OK", max_inv=1, ev="D:T,D:R,+u:R", act="trigger,queries", trig_budget=2, mutex=1, faults=1, mon="C16"))
    # lock()/unlock() failing with -1, 256, 65536, INT_MIN, 2 instead of 1 (any non-zero value is a failure)
    for fv in FAIL_VALUES:
      sh.append(duplex("mutex-run-r1-fail%d" % fv, 1, 0, 2, "C16", "C16",
                     extra=dict(mutex=1, faults=fv, h_trigger=0, act="trigger,hold,queries", suffix_mask=1, ev="+u:R,+h:R,+d:R", crlf=0, max_name=2,
                                ecodes_R="OK,DATA_OK,HEXIT_OK", ecodes_T="OK", codes_T="OK", codes_R="OK,DATA_OK")))
    return sh


def p_c16(tier):
    return {"shards": c16_shards(tier), "require": ["lock_faults", "unlock_faults", "units_evt", "lines_hold"],
            "technique": "explicit-state model checking with fault injection: in every reachable state each of the 8 locking API functions is called with lock() failing, unlock() failing and no fault",
            "bounds": "duplex scenario (commands, events, hold) with trigger budget %d, queue capacity 1 and 2" % (2 if tier == "quick" else 3),
            "assumptions": ["when the outcome of a trigger would be undetermined for the oracle (event possibly popped already) the fault is not injected in that one call"]}


PLANS["C16"] = p_c16

# ---------------------------------------------------------------- C18 busy / hold queries


def p_c18(tier):
    sh = []
    for s in c11_shards(tier, prop="C18", mon="C18") + c14_shards(tier, prop="C18", mon="C18"):
        sh.append(s)
    for s in c01_shards("quick"):
        if "cap6-sh0-l2d1" in s["tag"]:
            a = list(s["args"]); a[a.index("--mon") + 1] = "C18"; a[a.index("--prop") + 1] = "C18"
            sh.append({"tag": "busy-" + s["tag"], "bin": s["bin"], "args": a})
    for rr in (2, 3):
        sh.append(mcx("busy-noread%d" % rr, prop="C18", table=T_AMBIG, cap=6, name_alpha="+TABZ", args_alpha="1", max_name=3, max_args=2, D=0, lines=2, crlf=1, blank=1,
                      refuse_read=rr, refuse_write=1, codes_W="OK,ERROR", codes_R="OK,DATA_OK", codes_U="OK", codes_T="OK", max_inv=1, mon="C18"))
    # every byte value at the start of a line and between lines, busy / idle probed after every call
    sh += sw_shards("tables", "C18", tier, 3, "--family", "firstbyte", tagp="firstbyte")
    return {"shards": sh, "require": ["busy_ok_checked", "busy_busy", "hold_yes", "units_evt"],
            "technique": "explicit-state model checking: cat_is_busy and cat_is_hold are evaluated after every cat_service call of every explored path and compared with the harness' own lexers of input and output",
            "bounds": "state spaces of the duplex, hold and lines scenarios",
            "assumptions": []}


PLANS["C18"] = p_c18

# ---------------------------------------------------------------- C20 history independence

T_HIST = "+SR:U;+S:W,vu1rw/w;+RA:R,vu1ro/r;+U:UT;D:W,i"   # +S is a proper prefix of the earlier +SR; +R abbreviates +RA


def c20_shards(tier):
    quick = tier == "quick"
    sh = []
    for cap, shared, aa, ma in ((8, 0, "1-", 2), (8, 1, "1-", 2), (6, 0, "1", 6), (6, 1, "1", 6)):
        for lower in (0, 1):
            # lines=0: fixpoint over unboundedly many lines.  lines=3 first: a bounded search that terminates even if a change
            # makes the residue grow without bound (the fixpoint search is depth first and could get lost in such a space)
            for lines in ((3, 0) if lower == 0 else (0,)):
                sh.append(mcx("history-cap%d-sh%d-lc%d-l%d" % (cap, shared, lower, lines), prop="C20", table=T_HIST, cap=cap, shared=shared, name_alpha="+SRUDA", max_name=3 if quick else 4,
                              args_alpha=aa, max_args=ma, D=1 if lines == 0 else 0, dev=DEV, lines=lines, crlf=1, blank=1, lower=lower, refuse_read=1 if lines == 0 else 0, refuse_write=1 if lines == 0 else 0,
                              codes_W="OK,ERROR", codes_R="DATA_OK,OK", codes_U="OK,LIST", codes_T="DATA_OK,LIST", max_inv=1, varcb_fail=1, mon="C20"))
    # several groups, a disabled one registered first: the match table is indexed by global command index
    for lines in (3, 0):
        sh.append(mcx("history-groups-l%d" % lines, prop="C20", table="!QA:U;QB:U;QC:U;QD:U|+MO:U;+MU:UR,vu1ro|+S:W,vu1rw", cap=8, shared=1, name_alpha="+MOUSQ", max_name=3, args_alpha="1", max_args=1,
                      D=0, lines=lines, crlf=1, blank=0, refuse_read=0, refuse_write=0, codes_W="OK", codes_R="DATA_OK", codes_U="OK,ERROR", max_inv=1, mon="C20"))
    # lines whose handlers trigger unsolicited events: the event machine is busy while the response ends and the next line begins
    for ring, shared in ((1, 0), (2, 1)):
        sh.append(mcx("history-events-r%d" % ring, ring=ring, prop="C20", table=T_HIST + "||+e:vu1ro;+f:R", cap=8, shared=shared, name_alpha="+SRUA", max_name=3, args_alpha="1", max_args=1,
                      D=0, lines=0, crlf=1, blank=1, refuse_read=1, refuse_write=1, codes_W="OK", codes_R="DATA_OK", codes_U="OK", codes_T="DATA_OK", ecodes_R="DATA_OK,OK",
                      max_inv=1, ev="+e:R,+f:R", h_trigger=1, mon="C20"))
    # multi-unit responses (command list, READ with DATA_NEXT) to CRLF requests in a buffer large enough for CRLF-framed entries
    sh.append(mcx("history-list-crlf", prop="C20", table=T_HIST, cap=16, shared=0, name_alpha="+SRUA", max_name=3, args_alpha="1", max_args=1, D=1, dev=r"\r", lines=2, crlf=1, blank=0, lower=0,
                  refuse_read=0, refuse_write=1, codes_W="OK", codes_R="DATA_NEXT,DATA_OK", codes_U="LIST,OK", codes_T="LIST,DATA_OK", max_inv=1, mon="C20"))
    # cat_init called again between and inside lines: what follows is answered as on a fresh object
    sh.append(mcx("history-reinit", prop="C20", table=T_HIST, cap=8, shared=1, name_alpha="+SRUDA", max_name=3, args_alpha="1", max_args=2, D=0, lines=3, crlf=1, blank=1, lower=0,
                  refuse_read=0, refuse_write=0, codes_W="OK,ERROR", codes_R="DATA_OK", codes_U="OK,LIST", codes_T="DATA_OK", max_inv=1, act="reinit", mon="C20"))
    # what a variable write callback is told (write_size) must not depend on earlier lines: read-only string first, writable number second
    sh.append(mcx("history-rostring", prop="C20", table="+S:W,vs3ro/w,vu1rw/w;+U:U", cap=12, shared=0, name_alpha="+SU", max_name=2, args_alpha='"1,', max_args=6, D=0, lines=3, crlf=0, blank=0,
                  refuse_read=0, refuse_write=0, codes_W="OK", codes_U="OK", max_inv=1, varcb_fail=0, mon="C20"))
    # hold scenario: release requests made while not held (event handler return codes, API calls) followed by lines that hold
    sh += [dict(s, tag="history-" + s["tag"]) for s in c14_shards(tier, prop="C20", mon="C20,C14") if s["tag"] in ("hold-U-r1", "hold-R-r1", "hold-W-r2")]
    return sh


def p_c20(tier):
    return {"shards": c20_shards(tier), "require": ["lines_done", "lines_blank", "implicit_hits", "overlong", "list_lines", "wvar_ok", "wvar_err"],
            "technique": "explicit-state model checking to the fixpoint over unboundedly many lines: every line of the family from every reachable quiescent residue, compared with the memoryless reference and the CR rule",
            "bounds": "line family: grammar lines (names <=%d over 6 symbols, args <=2 over {1,-} at cap 8 and <=6 over {1} at cap 6, all four suffixes) with <=1 deviation from 9 bytes, LF and CRLF, blank lines" % (3 if tier == "quick" else 4),
            "assumptions": ["variable values range over what the argument alphabet can write"]}


PLANS["C20"] = p_c20

# ---------------------------------------------------------------- C09 gating

T_GATE = "+A:U;+AB:UW,vu1rw/w;D:W,i;DL:UW|+ABC:UR,vu1rw/r;+O:T,o,vu1rw;+OB:WUR,o"


def c09_shards(tier):
    quick = tier == "quick"
    sh = []
    for sm, nm in ((1, "run"), (2, "read"), (4, "write"), (8, "test")):
        sh.append(mcx("gating-%s" % nm, prop="C09", table=T_GATE, cap=8, name_alpha="+ABCDOL", max_name=4, args_alpha="1", max_args=1, suffix_mask=sm,
                      D=0, lines=0, lower=0, refuse_read=0, refuse_write=0, codes_W="OK", codes_R="OK,DATA_OK", codes_U="OK,LIST", codes_T="OK", max_inv=1,
                      act="flags", flag_budget=3 if quick else 0, mon="C09"))
    for sm, nm in ((1, "run"), (4, "write")):
        sh.append(mcx("gating-alias-%s" % nm, prop="C09", table=T_GATE, cap=8, name_alpha="+ABCDOL", max_name=4, args_alpha="1", max_args=1, suffix_mask=sm,
                      D=0, lines=0, lower=0, refuse_read=0, refuse_write=0, codes_W="OK", codes_R="OK,DATA_OK", codes_U="OK,LIST", codes_T="OK", max_inv=1,
                      act="flags", flag_budget=2, alias_group=1, mon="C09"))
    for ring in (1, 2):
        sh.append(duplex_overlong("write-with-events-on-disabled-r%d" % ring, ring, ring - 1, "C09", "C09",
                                  extra=dict(table="+W:W;+V:W,vu1rw/w,vi1rw/w,vu1rw/w||+u:d,vu1rw/w,vu1rw/w", cap=12, max_args=6, lines=1, act="trigger", trig_budget=2, ev="+u:R,+u:T")))
    # descriptor sweeps with disable subsets and disabled groups, alone and with a second parser object serviced in between
    sh += sw_shards("tables", "C09", tier, 8, "--family", "small", "--maxk", 2 if quick else 3, "--interfere", 1, tagp="tables-2obj")
    sh += sw_shards("tables", "C09", tier, 8, "--family", "small", "--maxk", 2 if quick else 3, "--interfere", 2, tagp="tables-2objline")
    sh += sw_shards("tables", "C09", tier, 8, "--family", "lanes", "--interfere", 1, tagp="lanes-2obj")
    sh += sw_shards("tables", "C09", tier, 8, "--family", "lanes", "--interfere", 2, tagp="lanes-2objline")
    sh += sw_shards("describe", "C09", tier, 8, "--family", "shapes", "--pairs", 1, "--interfere", 1, tagp="shapes-2obj")
    sh += sw_shards("describe", "C09", tier, 8, "--family", "shapes", "--pairs", 1, "--interfere", 2, tagp="shapes-2objline")
    return sh


def p_c09(tier):
    return {"shards": c09_shards(tier), "require": ["lines_done", "flag_flips", "implicit_hits", "ambiguous_lf", "list_lines"],
            "technique": "explicit-state model checking: any history of disable-flag flips at line boundaries (%s) interleaved with every line of the family; reference gating on every line" % ("<=3 flips" if tier == "quick" else "fixpoint: histories of any length, all 128 flag subsets"),
            "bounds": "6 commands in 2 groups with prefix relations (also a command whose name extends the implicit-write member's), implicit-write and only-test members; names <=4 over 7 symbols; four suffix forms",
            "assumptions": ["flags are flipped only between command lines"]}


PLANS["C09"] = p_c09

# ================================================================ sweeps

SWEEP_RULE = ("every case is one input (or descriptor + input) executed on the real parser under the eager environment and compared call by call, byte by byte "
              "and variable by variable with the reference model; distinct = distinct (final parser state, output) hashes")


def scale_shards(prop, n=4):
    # descriptors beyond what the shared harness builds: 16..1000 variables per command, single variables printing up to 2^17 characters
    return [{"tag": "scale-%d" % i, "bin": "sw_scale", "args": ["--prop", prop, "--shard", i, "--nshards", n]} for i in range(n)]


def sw_shards(name, prop, tier, n, *extra, asan=False, tagp=None):
    return [sweep("%s-%s-%d" % (tagp or name, "-".join(str(e) for e in extra if not str(e).startswith("--")) or "all", i), name, "--prop", prop, "--tier", tier,
                  "--shard", i, "--nshards", n, *extra, asan=asan) for i in range(n)]


def p_c02(tier):
    quick = tier == "quick"
    sh = sw_shards("tables", "C02", tier, 16 if quick else 48, "--family", "small", "--maxk", 3 if quick else 4)
    sh += sw_shards("tables", "C02", tier, 4, "--family", "alphabet")
    sh += sw_shards("tables", "C02", tier, 16, "--family", "lanes")
    # the same with a second, unrelated parser object serviced between all calls (module-level state shared between objects):
    # '2obj' = one call of the other object per call, '2objline' = the other object receives, processes and answers a whole line per call
    sh += sw_shards("tables", "C02", tier, 8, "--family", "small", "--maxk", 2 if quick else 3, "--interfere", 1, tagp="tables-2obj")
    sh += sw_shards("tables", "C02", tier, 8, "--family", "small", "--maxk", 2 if quick else 3, "--interfere", 2, tagp="tables-2objline")
    sh += sw_shards("tables", "C02", tier, 8, "--family", "lanes", "--interfere", 1, tagp="lanes-2obj")
    sh += sw_shards("tables", "C02", tier, 8, "--family", "lanes", "--interfere", 2, tagp="lanes-2objline")
    # names of 0 .. capacity+2 characters in tiny buffers (a name may be longer than the command buffer), exact and abbreviated
    sh += sw_shards("bounds", "C02", tier, 4, "--family", "names", tagp="names")
    # K commands sharing one prefix plus an outsider, K around 2^8, 2^9, 2^10 and 2^16, one and two groups
    sh += sw_shards("tables", "C02", tier, 26, "--family", "crowd", tagp="crowd")
    # unsolicited events (READ and TEST, with and without variables) popped at every point of the name search of exact and abbreviated names
    for ring in (1, 2):
        sh.append(mcx("search-with-events-r%d" % ring, ring=ring, prop="C02", table="+AB:U;+CD:UR,vu1rw;+EF:UW;+EG:U;Z:U||+t:T,vu1ro,D=d;+n:T,D=n", cap=12, shared=ring - 1, name_alpha="+ACEBFZ", max_name=3,
                      args_alpha="1", max_args=1, suffix_mask=7, lines=1, refuse_read=1, refuse_write=1, codes_U="OK", codes_R="DATA_OK", codes_W="OK", ecodes_T="DATA_OK", max_inv=1,
                      ev="+t:T,+t:R,+n:T", act="trigger", trig_budget=2, mon="C02"))
    # sequences of lines on one object: what an earlier search left behind must not change the resolution of the next name
    for tn, t, alpha in (("hist", T_HIST, "+SRUA"), ("ambig", T_AMBIG, "+TABZ"), ("impl", T_IMPL, "+DOX")):
        sh.append(mcx("search-history-%s" % tn, prop="C02", table=t, cap=8, shared=0, name_alpha=alpha, max_name=3, args_alpha="1", max_args=1, suffix_mask=15, lines=3, refuse_read=0, refuse_write=0,
                      codes_U="OK", codes_R="DATA_OK", codes_W="OK", codes_T="OK", max_inv=1, mon="C02"))
    # cat_init called again at any point of a line (also in the middle of the name search), then further lines
    for tn, t, alpha in (("impl", T_IMPL, "+DOX"), ("ambig", T_AMBIG, "+TABZ")):
        sh.append(mcx("search-with-reinit-%s" % tn, prop="C02", table=t, cap=8, shared=1, name_alpha=alpha, max_name=3, args_alpha="1", max_args=1, suffix_mask=15, lines=2, refuse_read=1, refuse_write=0,
                      codes_U="OK", codes_R="DATA_OK", codes_W="OK", codes_T="OK", max_inv=1, act="reinit", mon="C02"))
    return {"shards": sh, "require": ["runs", "implicit_hits", "ambiguous_lf", "ambiguous_eq", "notfound", "test_forms"],
            "technique": "exhaustive enumeration of descriptors and typed names on the real parser, compared with a reference transcription of the resolution rule",
            "bounds": "all tables of 1..%d commands named over {A,B}^(1..3) x every disable subset x optional implicit-write member x all typed names {A,B}^(1..4) x 4 suffixes; "
                      "all 256 byte values in place of each of the 45 legal name characters (both letter cases in the descriptor); tables of 4..257 commands in 1-3 groups "
                      "(exact, unique and ambiguous abbreviation of every index, tight and loose buffer)" % (3 if quick else 4),
            "rule": SWEEP_RULE, "assumptions": ["eager environment; independence from the schedule is C12"]}


PLANS["C02"] = p_c02


def p_c04(tier):
    quick = tier == "quick"
    sh = sw_shards("numeric", "C04", tier, 42, "--family", "all", "--maxlen", 5 if quick else 6)
    sh += sw_shards("numeric", "C04", tier, 32, "--family", "bounds")
    # multi-variable WRITE parsed over several cat_service calls while unsolicited events start, flush and finish in between
    for ring in (1, 2):
        sh.append(duplex_overlong("write-with-events-r%d" % ring, ring, ring % 2 + 1, "C04", "C04", extra=dict(cap=12, max_args=6, lines=1, act="trigger", trig_budget=3)))
        sh.append(duplex_overlong("write-with-events-stale-usize-r%d" % ring, ring, 1, "C04", "C04", extra=dict(cap=12, max_args=13, args_alpha="1", lines=1, act="trigger", trig_budget=1, stale_usize=24)))
        sh.append(duplex_overlong("write-with-failing-events-r%d" % ring, ring, ring % 2 + 1, "C04", "C04", extra=dict(cap=12, max_args=6, lines=1, act="trigger", trig_budget=2, ev="+d:R,+f:R,+s:R", varcb_fail=1, h_trigger=0)))
    # digit counts at and around 2^8, 2^9, 2^16 and 2^17 (counters narrower than the buffer capacity)
    sh += sw_shards("numeric", "C04", tier, 12, "--family", "huge", tagp="huge")
    sh += sw_shards("numeric", "C04", tier, 4, "--family", "bytes", tagp="bytes")
    sh += sw_shards("numeric", "C04", tier, 3, "--family", "capfit", tagp="capfit")
    # implicit-write command with numeric variables: the argument text is everything after the name ('=' included)
    sh += sw_shards("numeric", "C04", tier, 12, "--family", "implicit", "--maxlen", 4 if quick else 5, tagp="implicit")
    return {"shards": sh, "require": ["runs", "wvar_ok", "wvar_err"],
            "technique": "exhaustive enumeration of argument texts on the real parser; acceptance decided on the text by arbitrary-precision comparison in the reference",
            "bounds": "all texts <=%d over 13 symbols for INT/UINT/HEX x width 1,2,4; boundary family: (2^7,2^8,2^15,2^16,2^31,2^32,2^63,2^64,10^19,10^20)+-3 and q*2^64+r (q<=16), "
                      "signs, 0..30 leading zeros, both hex cases, every digit count 1..80; widths 1,2,4,3,8; access RW/RO/WO; argument positions 1..3; need_all on/off; handler on/off" % (5 if quick else 6),
            "rule": SWEEP_RULE, "assumptions": ["argument texts contain no NUL byte", "magnitudes beyond 64 bits for read-only variables are outside the statement"]}


PLANS["C04"] = p_c04


def p_c05(tier):
    sh = sw_shards("buffers", "C05", tier, 48)
    sh += sw_shards("buffers", "C05", tier, 8, "--family", "residue", tagp="residue")
    # valid texts of exactly capacity-3 .. capacity+2 bytes x every line ending and CR position x every layout
    sh += sw_shards("buffers", "C05", tier, 4, "--family", "capfit", tagp="capfit")
    sh += sw_shards("args", "C05", tier, 6, "--family", "huge", tagp="huge")
    for ring in (1, 2):
        sh.append(mcx("bufwrite-with-events-r%d" % ring, ring=ring, prop="C05", table="+V:W,vb2rw,vs3rw,vb1rw||+u:vu1ro,vu1ro", cap=16, shared=ring % 2 + 1, name_alpha="+V", max_name=2,
                      args_alpha="A1,\"", max_args=6, suffix_mask=4, lines=1, refuse_read=1, refuse_write=1, codes_W="OK", max_inv=1, ev="+u:R", act="trigger", trig_budget=2, mon="C05"))
        sh.append(mcx("bufwrite-with-failing-events-r%d" % ring, ring=ring, prop="C05", table="+V:W,vb1rw,vs3rw,vb2rw||+d;+f:vu1ro/r", cap=16, shared=ring % 2 + 1, name_alpha="+V", max_name=2,
                      args_alpha="A1,\"", max_args=5, suffix_mask=4, lines=1, refuse_read=1, refuse_write=0, codes_W="OK", max_inv=1, ev="+d:R,+f:R", varcb_fail=1, act="trigger", trig_budget=2, mon="C05"))
    for cap, shared in ((9, 2), (6, 2), (7, 1)):
        sh.append(mcx("bufwrite-with-events-cap%d-sh%d" % (cap, shared), ring=1, prop="C05", table="+V:W,vb4rw,vs4rw||+u:vu1ro,vu1ro", cap=cap, shared=shared, name_alpha="+V", max_name=2,
                      args_alpha="A,\"" if cap > 7 else "A1,\"", max_args=cap, suffix_mask=4, lines=1, refuse_read=1, refuse_write=0, codes_W="OK", max_inv=1, ev="+u:R,+u:T", act="trigger", trig_budget=1, mon="C05"))
    return {"shards": sh, "require": ["runs", "wvar_ok", "wvar_err", "units_evt"],
            "technique": "exhaustive enumeration of argument texts on the real parser against a reference decoder; canaries after every variable; plus explicit-state exploration of buffer WRITEs interleaved with unsolicited events",
            "bounds": "hex buffers and strings, data_size 1..8,16,63,64, access RW/RO/WO, argument positions 1..3: k legal units (k=0..data_size+1, plain/escaped mixes) followed by every byte 1..255 "
                      "(closed and unclosed, every escape character); all texts over 4 (hex) / 6 (string) symbols up to 2*data_size+3 for data_size<=3",
            "rule": SWEEP_RULE, "assumptions": ["argument texts contain no NUL byte"]}


PLANS["C05"] = p_c05


def p_c06(tier):
    sh = sw_shards("args", "C06", tier, 36 if tier == "quick" else 54)
    sh += [s for s in c10_shards("quick", mon="C06", prop="C06") if "cmd-R" in s["tag"] or "cmd-T" in s["tag"] or "evt" in s["tag"]]
    # every command shape (handler subsets x flags x variable profiles, also '.var set, var_num 0') with every request form: '?' after '=' reaches the write handler verbatim unless a TEST form exists
    sh += sw_shards("describe", "C06", tier, 4, "--family", "shapes", "--pairs", 0, tagp="shapes")
    sh += sw_shards("tables", "C06", tier, 8, "--family", "small", "--maxk", 2 if tier == "quick" else 3, tagp="tables")
    sh += sw_shards("args", "C06", tier, 6, "--family", "huge", tagp="huge")
    for ring in (1, 2):
        sh.append(duplex_overlong("args-stale-usize-r%d" % ring, ring, 1, "C06", "C06", extra=dict(cap=10, max_args=12, args_alpha="1a", lines=1, act="trigger", trig_budget=1, stale_usize=20 + ring)))
    for ring in (1, 2):
        sh.append(duplex_overlong("args-with-string-event-r%d" % ring, ring, ring - 1, "C06", "C06", extra=dict(cap=10, max_args=6, lines=2, ev="+s:R,+u:R", codes_W="OK,NEXT", h_trigger=1)))
    return {"shards": sh, "require": ["runs", "overlong", "lines_ok"],
            "technique": "exhaustive positional byte sweep on the real parser (write handlers) and explicit-state exploration of the return-code scenario (read/test handlers of both machines)",
            "bounds": "caps 6,7,8,16 (thorough also 24,32) in separate, shared-even and shared-odd layouts; plain, implicit and variable-backed write commands; argument length 0..3*cap with every byte value (except LF) at every position; "
                      "all strings over {a,A,CR,NUL} up to cap+1; read/test handlers: data, length, NUL terminator and true capacity checked at every invocation of the C10 scenario",
            "rule": SWEEP_RULE, "assumptions": []}


PLANS["C06"] = p_c06


def p_c07(tier):
    quick = tier == "quick"
    sh = sw_shards("roundtrip", "C07", tier, 32, "--family", "numeric")
    sh += sw_shards("roundtrip", "C07", tier, 8, "--family", "buffers")
    sh += sw_shards("roundtrip", "C07", tier, 8, "--family", "mixes")
    sh += scale_shards("C07")
    for mode in (1, 2):
        sh += sw_shards("roundtrip", "C07", tier, 8, "--family", "mixes", "--interfere", mode, tagp="mixes-2obj%d" % mode)
    # formatted READ responses (command and event) and WRITE argument lists while the other machine works, odd-sized shared buffer included
    sh.append(duplex("duplex-r1-oddshared", 1, 2, 2, "C07", "C07"))
    sh.append(duplex("duplex-r2-shared", 2, 1, 2, "C07", "C07"))
    for ring in (1, 2):
        sh.append(duplex_overlong("write-with-events-odd-r%d" % ring, ring, 2, "C07", "C07", extra=dict(cap=7, max_args=7, lines=1, act="trigger", trig_budget=2, ev="+u:R,+s:R")))
    if not quick:
        for t in (0, 1, 2):
            sh += sw_shards("roundtrip", "C07", tier, 64, "--family", "lean32", "--type", t, tagp="lean32-t%d" % t)
    return {"shards": sh, "require": ["runs", "rvar", "wvar_ok"], "deadline": 120 if quick else 2400,
            "technique": "exhaustive value sweep on the real parser: READ response fed back as WRITE, bit-identical storage required (differential, no hand-written expectation)",
            "bounds": "every 8- and 16-bit pattern of INT/UINT/HEX; 32-bit: %s; byte buffers: all contents for data_size<=2, every byte value at every position up to 64; strings: all strings over 9 symbols "
                      "for length<data_size<=5, every non-CR non-NUL byte at every position up to 64; all 125 ordered type triples x 27 value combinations at generous, exact-fit and one-short capacity"
                      % ("hi16 or lo16 in a 10-element edge set (1.3M values per type)" if quick else "all 2^32 values of each of the three types (lean loop) plus the 40-element edge cross through the full harness"),
            "rule": SWEEP_RULE, "assumptions": []}


PLANS["C07"] = p_c07


def p_c08(tier):
    sh = sw_shards("access", "C08", tier, 16)
    sh += sw_shards("numeric", "C08", tier, 16, "--family", "bounds")
    sh += sw_shards("buffers", "C08", tier, 32)
    # variable write callbacks that fail (read-only variable between two writable ones): nothing read-only may change, with any result value
    sh += [s for s in c10_shards(tier, mon="C08", prop="C08") if "cmd-W" in s["tag"]]
    # the same with a second, unrelated parser object (writable string variable) serviced between all calls
    sh += sw_shards("access", "C08", tier, 8, "--interfere", 1, tagp="access-2obj")
    sh += sw_shards("access", "C08", tier, 8, "--interfere", 2, tagp="access-2objline")
    sh += sw_shards("buffers", "C08", tier, 16, "--lite", 1, "--interfere", 1, tagp="buffers-2obj")
    sh += sw_shards("buffers", "C08", tier, 16, "--lite", 1, "--interfere", 2, tagp="buffers-2objline")
    return {"shards": sh, "require": ["runs", "rvar", "wvar_ok", "wvar_err", "test_forms"],
            "technique": "exhaustive enumeration over access-mode assignments on the real parser; read-only storage byte-compared after every API call; write-only contents varied (0x00/0xA5/'g') under an oracle that never reads them",
            "bounds": "three-variable commands: 5 leading types x all 27 access assignments x read/write handler subsets x need_all x 3 write-only fill patterns x 17 request lines (all forms, valid, invalid, over-range, missing), "
                      "each also through the unsolicited READ and TEST paths; plus the C04 boundary and C05 buffer families with access as a dimension",
            "rule": SWEEP_RULE, "assumptions": ["over-range text for a read-only variable is outside the statement"]}


PLANS["C08"] = p_c08


def p_c19(tier):
    quick = tier == "quick"
    sh = sw_shards("describe", "C19", tier, 16, "--family", "vars", "--maxlen", 3, "--restricted3", 1 if quick else 0)
    sh += sw_shards("describe", "C19", tier, 4, "--family", "shapes", "--pairs", 0, tagp="shapes1")
    sh += sw_shards("describe", "C19", tier, 16, "--family", "shapes", "--pairs", 1 if quick else 2, tagp="shapes2")
    # a second parser object with other group boundaries printing its own command list between all calls
    sh += sw_shards("describe", "C19", tier, 8, "--family", "shapes", "--pairs", 1, "--interfere", 1, tagp="shapes-2obj")
    sh += sw_shards("describe", "C19", tier, 8, "--family", "shapes", "--pairs", 1, "--interfere", 2, tagp="shapes-2objline")
    # TEST text regenerated after NEXT / DATA_NEXT of a test handler (both machines, commands with two variables)
    sh += [s for s in c10_shards(tier, mon="C19", prop="C19") if "cmd-T" in s["tag"] or "evt" in s["tag"]]
    # the command list while unsolicited events are triggered, flushed and refused around it
    sh += [s for s in c11_shards(tier, prop="C19", mon="C19") if s["tag"].endswith("-run") or "cursor-test" in s["tag"]]
    return {"shards": sh, "require": ["runs", "test_forms", "list_lines"],
            "technique": "exhaustive enumeration of descriptors on the real parser: TEST text and command list built from the descriptor by the reference; every request form of every listed command submitted",
            "bounds": "variable lists of length 0..3 over 15 type/width x 3 access x named/unnamed (%s), description and test handler on/off, both machines, exact-fit and one-short capacity; "
                      "command shapes: 16 handler subsets x only_test/disable/group-disable/implicit_write x 5 variable profiles, alone and in ordered pairs (%s), list at capacity 32, 9 (exact) and 8 (one short)"
                      % ("third variable restricted in quick" if quick else "all 729k lists", "partner restricted to one representative per flag set" if quick else "all ordered pairs"),
            "rule": SWEEP_RULE, "assumptions": ["implicit-write commands that own variables are excepted by the statement and not generated"]}


PLANS["C19"] = p_c19

# ---------------------------------------------------------------- C03 memory safety / UB


def p_c03(tier):
    quick = tier == "quick"
    sh = []
    for fam, n in (("args", 16), ("format", 16), ("ubuf", 4), ("names", 8)):
        sh += sw_shards("bounds", "C03", tier, n, "--family", fam, asan=True, tagp="asan-bounds")
        sh += sw_shards("bounds", "C03", tier, max(2, n // 4), "--family", fam, tagp="canary-bounds")
    sh += sw_shards("buffers", "C03", tier, 32 if quick else 64, "--lite", 1 if quick else 0, asan=True, tagp="asan-buffers")
    sh += sw_shards("args", "C03", tier, 36, "--lite", 1 if quick else 0, asan=True, tagp="asan-args")
    sh += sw_shards("buffers", "C03", tier, 8, "--family", "residue", asan=True, tagp="asan-residue")
    sh += sw_shards("buffers", "C03", tier, 4, "--family", "capfit", asan=True, tagp="asan-capfit")
    sh += sw_shards("numeric", "C03", tier, 3, "--family", "capfit", asan=True, tagp="asan-numeric-capfit")
    sh += sw_shards("numeric", "C03", tier, 16, "--family", "bounds", asan=True, tagp="asan-numeric")
    sh += sw_shards("numeric", "C03", tier, 14, "--family", "all", "--maxlen", 4 if quick else 5, asan=True, tagp="asan-numeric")
    sh += sw_shards("describe", "C03", tier, 8, "--family", "vars", "--maxlen", 2, asan=True, tagp="asan-describe")
    sh += sw_shards("describe", "C03", tier, 8, "--family", "shapes", "--pairs", 1, asan=True, tagp="asan-shapes")
    sh += sw_shards("roundtrip", "C03", tier, 8, "--family", "mixes", asan=True, tagp="asan-mixes")
    sh += sw_shards("roundtrip", "C03", tier, 8, "--family", "buffers", asan=True, tagp="asan-rt-buffers")
    sh += sw_shards("access", "C03", tier, 8, asan=True, tagp="asan-access")
    sh += sw_shards("tables", "C03", tier, 8, "--family", "lanes", asan=True, tagp="asan-lanes")
    # graph scenarios under the sanitizers: all byte strings, both machines, all return codes
    for cap in (6, 7):
        sh.append(mcx("asan-free-cap%d" % cap, asan=True, prop="C03", table=T_AMBIG, cap=cap, shared=cap & 1, gen_mode="free", free_alpha=r"AT+=?\r\0Z,\xff",
                      free_len=6 if quick else 8, lines=2, refuse_read=1, refuse_write=1, codes_W="OK,ERROR", codes_U="OK,ERROR,LIST", codes_R="DATA_OK", codes_T="DATA_OK", mon="C03"))
    for ring in (1, 2):
        sh.append(duplex("asan-duplex-r%d" % ring, ring, 1, 2, "C03", "C03", asan=True))
    for s in c10_shards("quick", mon="C03", prop="C03"):
        if "tok1-sh2" in s["tag"] or "ub34" in s["tag"]:
            sh.append({"tag": "asan-" + s["tag"], "bin": s["bin"].replace("mcx_", "mcxasan_"), "args": s["args"]})
    sh.append(mcx("asan-queue-alone-r8", ring=8, asan=True, prop="C03", table=T_Q, cap=12, shared=0, gen_mode="none", refuse_write=0,
                  ecodes_R="OK", max_inv=1, ev="+a:R,+d:R", act="trigger,queries", trig_budget=0, mon="C03"))
    for ring in (2, 3):
        sh.append(mcx("asan-queue-alone-r%d" % ring, ring=ring, asan=True, prop="C03", table=T_Q, cap=12, shared=1, gen_mode="none", refuse_write=1,
                      ecodes_R="OK,DATA_OK,DATA_NEXT", ecodes_T="OK", max_inv=1, tok=1, ev="+a:R,+b:R,+c:T,+d:R", act="trigger,queries", trig_budget=0, mon="C03"))
    return {"shards": sh, "require": ["runs", "lines_done", "canary_checks", "overlong", "units_evt"],
            "technique": "explicit-state exploration and exhaustive size sweeps of the real parser built with ASan+UBSan (exact-size heap blocks, report hooks) and, in the plain build, canaries and the idle-half check",
            "bounds": "capacities 6..24 (format: 6..48) in separate, shared-even and shared-odd layouts; argument lengths 0..3*cap; unsolicited buffer 0..40 bytes; names 0..cap+2, descriptions 0..cap+2; 4*cap commands; "
                      "variables of every type with data_size 1..64 around data_size-1/data_size/data_size+1 via plain and escaped units; all byte strings <=%d over 11 symbols; duplex, return-code and queue scenarios" % (6 if quick else 8),
            "rule": SWEEP_RULE,
            "assumptions": ["descriptor inside the supported domain (cap>=6, commands<=4*cap, aligned variable storage, handlers stay inside max_data_size)"]}


PLANS["C03"] = p_c03

# ---------------------------------------------------------------- C17 threads


def thr(ring, prod, ops, opset, bound, shard=0, nshards=1, variant=0):
    return {"tag": "threads-r%d-p%d-o%d-s%d-b%d-v%d-%d" % (ring, prod, ops, opset, bound, variant, shard), "bin": "threads_r%d" % ring,
            "args": ["--prop", "C17", "--producers", prod, "--ops", ops, "--opset", opset, "--bound", bound, "--shard", shard, "--nshards", nshards, "--variant", variant]}


def p_c17(tier):
    quick = tier == "quick"
    sh = []
    if quick:
        for ring in (1, 2):
            for opset in (0, 1, 2, 3):
                sh.append(thr(ring, 2, 3, opset, 2))
        for i in range(4):
            sh.append(thr(2, 3, 2, 0, 2, i, 4))
            sh.append(thr(1, 3, 2, 3, 2, i, 4))
        for ring in (1, 2):
            sh.append(thr(ring, 2, 3, 2, 2, variant=2))
            sh.append(thr(ring, 2, 3, 2, 2, variant=3))
        # hold entered by the read handler of a command that is also raised as an unsolicited READ event by a producer
        for ring in (1, 2):
            for opset in (0, 1):
                sh.append(thr(ring, 2, 3, opset, 2, variant=1))
    else:
        for ring in (1, 2, 3, 8):
            for opset in (0, 1, 2, 3):
                sh.append(thr(ring, 2, 4, opset, 3))
                for i in range(4):
                    sh.append(thr(ring, 3, 3, opset, 2, i, 4))
        for i in range(16):
            sh.append(thr(2, 3, 2, 0, 3, i, 16))
        for ring in (1, 2, 3):
            for opset in (0, 1, 2, 3):
                sh.append(thr(ring, 2, 4, opset, 3, variant=1))
                sh.append(thr(ring, 2, 4, opset, 3, variant=2))
                sh.append(thr(ring, 2, 4, opset, 3, variant=3))
        # auxiliary, not deciding: the same bodies free-running under ThreadSanitizer (sampling)
        for ring in (1, 2, 8):
            for prod in (2, 3, 4):
                sh.append({"tag": "tsanaux-r%d-p%d" % (ring, prod), "bin": "tsanaux_r%d" % ring, "args": ["--prop", "C17", "--iters", 400, "--producers", prod]})
    return {"shards": sh, "require": ["runs"], "deadline": 150 if quick else 1500,
            "technique": "stateless model checking of real threads: all schedules up to a preemption bound under a semaphore hand-off scheduler over the library's mutex interface, with a page-protection lockset oracle; schedules reaching an already visited (memory, thread positions, preemption count) state are not expanded again",
            "bounds": ("2-3 producer threads x 2-3 operations (trigger, is_full, is_busy, is_hold, hold_exit mixes) + service thread over a held and a plain command with write back-pressure; preemption bound 2; queue capacity 1,2"
                       if quick else "2 producers x 4 operations at preemption bound 3 and 3 producers x 3 operations at bound 2, four operation mixes, queue capacity 1,2,3,8; 3 producers x 2 operations at bound 3"),
            "rule": "every case is one complete schedule of the real threads; distinct = distinct final outcomes (output bytes, accepted/refused/delivered counts)",
            "assumptions": ["the user's lock provides mutual exclusion with acquire/release ordering; memory orderings below the mutex are not modelled",
                            "thorough tier also runs an auxiliary free-running ThreadSanitizer pass of the same bodies (sampling; a report is a violation, silence is not evidence)",
                            "cat_get_processed_command and cat_is_unsolicited_event_buffered are documented as unprotected and are not called",
                            "variant 1: the first line is a READ request whose handler holds, and producer 1 raises unsolicited READ events for that same command",
                            "scheduling points: lock() before acquisition, first io/handler callback inside each cat_service call, thread end; switching is also possible whenever the service thread spins without effect"]}


PLANS["C17"] = p_c17
