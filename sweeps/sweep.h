/* common scaffolding for sweep drivers: exhaustive enumeration of inputs /
 * descriptors, each case executed on the real parser under the eager
 * environment and judged by the same reference model and monitors as the
 * graph scenarios. */
#ifndef SWEEP_H
#define SWEEP_H
#include "wint.h"
#include <stdlib.h>
#include <string.h>
#include <stdarg.h>
#include <sys/stat.h>
#include <signal.h>
#include <unistd.h>
#include <sys/time.h>

static struct {
        const char *name, *prop, *replay_dir;
        double deadline, t0;
        int shard, nshards;
        uint64_t runs, calls, cases, capped;
        int violations;
        char replay[1024], msg[1024];
        uint64_t *set; uint64_t setcap, setn;
        int tier;      /* 0 quick 1 thorough */
        char extra[2048];
} SW;

static void sw_on_crash(int sig);
static void sw_on_watchdog(int sig);

static void sw_set_insert(uint64_t h)
{
        if (!SW.set) { SW.setcap = 1 << 16; SW.set = calloc(SW.setcap, 8); }
        if ((SW.setn + 1) * 10 > SW.setcap * 7) {
                uint64_t *old = SW.set, oc = SW.setcap;
                SW.setcap <<= 1; SW.set = calloc(SW.setcap, 8); SW.setn = 0;
                for (uint64_t i = 0; i < oc; i++) if (old[i]) sw_set_insert(old[i]);
                free(old);
        }
        if (!h) h = 1;
        uint64_t i = (h * 0x9e3779b97f4a7c15ULL) & (SW.setcap - 1);
        while (SW.set[i]) { if (SW.set[i] == h) return; i = (i + 1) & (SW.setcap - 1); }
        SW.set[i] = h; SW.setn++;
}

static int sw_argi(int argc, char **argv, const char *name, int def)
{
        for (int i = 1; i + 1 < argc; i++) if (!strcmp(argv[i], name)) return atoi(argv[i + 1]);
        return def;
}
static const char *sw_args(int argc, char **argv, const char *name, const char *def)
{
        for (int i = 1; i + 1 < argc; i++) if (!strcmp(argv[i], name)) return argv[i + 1];
        return def;
}

static void sw_init(int argc, char **argv, const char *name)
{
        memset(&SW, 0, sizeof SW);
        SW.name = name;
        SW.prop = sw_args(argc, argv, "--prop", "C00");
        SW.replay_dir = sw_args(argc, argv, "--replay-dir", "replays");
        SW.deadline = atof(sw_args(argc, argv, "--deadline", "0"));
        SW.shard = sw_argi(argc, argv, "--shard", 0);
        SW.nshards = sw_argi(argc, argv, "--nshards", 1);
        SW.tier = !strcmp(sw_args(argc, argv, "--tier", "quick"), "thorough");
        SW.t0 = mcx_now();
        w_prop = SW.prop;
        signal(SIGSEGV, sw_on_crash); signal(SIGBUS, sw_on_crash); signal(SIGFPE, sw_on_crash); signal(SIGABRT, sw_on_crash); signal(SIGILL, sw_on_crash);
        { struct itimerval itv = {{5, 0}, {5, 0}}; signal(SIGALRM, sw_on_watchdog); setitimer(ITIMER_REAL, &itv, NULL); }
        wcfg_defaults(&W);
        W.merge_doomed = 0;
        W.interfere = sw_argi(argc, argv, "--interfere", 0);
}

static const uint8_t *sw_cur_bytes; static int sw_cur_n; static const char *sw_cur_setvars;
static void sw_violation(const uint8_t *bytes, int n, const char *setvars);
static int sw_finish(const char *tag);
static void sw_on_crash(int sig)
{
        signal(sig, SIG_DFL);
        mcx_violation_clear();
        mcx_violation(SW.prop, "C03: fatal signal %d (%s) while the real code processed this input", sig, sig == SIGSEGV ? "SIGSEGV" : sig == SIGABRT ? "SIGABRT (assertion or abort)" : sig == SIGALRM ? "watchdog: no progress for 30 s" : "signal");
        if (sw_cur_bytes) sw_violation(sw_cur_bytes, sw_cur_n, sw_cur_setvars);
        else { SW.violations++; snprintf(SW.msg, sizeof SW.msg, "%s", mcx_violation_msg()); }
        sw_finish("crash");
        fflush(stdout);
        _exit(1);
}

static uint64_t sw_wd_last; static int sw_wd_strikes;
static void sw_on_watchdog(int sig)
{
        (void)sig;
        /* only time spent inside one and the same feed of the real code counts */
        uint64_t now = SW.runs + SW.cases + WS.canary_checks;
        if (sw_cur_bytes && now == sw_wd_last) { if (++sw_wd_strikes >= 6) sw_on_crash(SIGALRM); }
        else { sw_wd_strikes = 0; sw_wd_last = now; }
}

static int sw_expired(void)
{
        if (SW.deadline > 0 && mcx_now() - SW.t0 > SW.deadline) { SW.capped = 1; return 1; }
        return 0;
}

/* allocate a command table of n entries (zeroed) into W */
static struct wcmd *sw_table(int n)
{
        free(W.cmd);
        W.cmd = calloc((size_t)n + 1, sizeof(struct wcmd));
        W.ncmd = n; W.ngrp = 1;
        memset(W.grp_disable, 0, sizeof W.grp_disable);
        for (int i = 0; i < n; i++) { W.cmd[i].registered = 1; W.cmd[i].group = 0; }
        return W.cmd;
}

static void sw_caps(int cap, int shared)
{
        W.cap = cap; W.shared = shared;
        W.buf_size = shared == 2 ? 2 * cap + 1 : shared ? 2 * cap : cap;   /* shared 2: odd-sized shared buffer */
        W.ubuf_size = cap;
}

static void sw_hex(char *out, size_t n, const uint8_t *b, int len)
{
        size_t o = 0;
        for (int i = 0; i < len && o + 3 < n; i++) o += (size_t)snprintf(out + o, n - o, "%02x", b[i]);
        if (o < n) out[o] = 0;
}

/* record a violation as a replay file that `replay.py` can re-run through mcx --feed-hex */
static void sw_violation(const uint8_t *bytes, int n, const char *setvars)
{
        SW.violations++;
        snprintf(SW.msg, sizeof SW.msg, "%s", mcx_violation_msg());
        mkdir(SW.replay_dir, 0777);
        static char tb[8192], hx[300000], esc[1024];
        table_print(&W, tb, sizeof tb);
        sw_hex(hx, sizeof hx, bytes, n);
        w_esc(esc, sizeof esc, bytes, n);
        uint64_t h = mcx_hash_bytes(tb, strlen(tb), 7).a ^ mcx_hash_bytes(bytes, (size_t)n, 9).a ^ (uint64_t)W.cap;
        snprintf(SW.replay, sizeof SW.replay, "%s/%s_%s_%016llx.replay", SW.replay_dir, SW.prop, SW.name, (unsigned long long)h);
        FILE *f = fopen(SW.replay, "w");
        if (!f) mcx_fatal("cannot write %s", SW.replay);
        fprintf(f, "# sweep replay file (%s)\nmode feed\nring 1\n", SW.name);
        fprintf(f, "argv '--prop' '%s' '--table' '%s' '--cap' '%d' '--shared' '%d' '--ubuf' '%d' '--line-max' '%d' '--mon' 'ALL' '--tok' '%d' '--varcb-fail' '0' '--wo-fill' '%d' '--var-init' '%d' '--str-full' '%d' '--interfere' '%d' '--feed-hex' '%s'%s%s %s\n", SW.prop, tb, W.cap,
                W.shared, W.ubuf_size, W.line_max, W.tok_mode, W.wo_fill, W.var_init, W.str_full, W.interfere, hx, setvars && *setvars ? " '--setvars' '" : "", setvars && *setvars ? setvars : "", setvars && *setvars ? "'" : "");
        if (SW.extra[0]) fprintf(f, "note %s\n", SW.extra);
        fprintf(f, "prop %s\nmsg %s\ninput %s\n", SW.prop, SW.msg, esc);
        fclose(f);
}

/* run bytes on the current world (no re-init); returns 1 on violation */
static int sw_feed(const uint8_t *bytes, int n, const char *setvars)
{
        mcx_violation_clear();
        sw_cur_bytes = bytes; sw_cur_n = n; sw_cur_setvars = setvars;
        int calls = world_run_bytes(bytes, n);
        sw_cur_bytes = NULL;
        SW.calls += (uint64_t)calls;
        SW.runs++;
        if (mcx_violated()) { sw_violation(bytes, n, setvars); return 1; }
        sw_set_insert(w_lib_hash() ^ mcx_hash_bytes(w_output(), (size_t)w_output_len(), 11).a);
        return 0;
}

static int __attribute__((unused)) sw_line(const uint8_t *bytes, int n)
{
        world_init();
        return sw_feed(bytes, n, NULL);
}

static void sw_json_escape(const char *s)
{
        for (; *s; s++) {
                if (*s == '"' || *s == '\\') printf("\\%c", *s);
                else if ((unsigned char)*s < 32) putchar(' ');
                else putchar(*s);
        }
}

static int sw_finish(const char *tag)
{
        printf("{\"tag\":\"%s\",\"states\":%llu,\"transitions\":%llu,\"runs\":%llu,\"cases\":%llu,\"distinct\":%llu,\"exhaustive\":%s,\"capped\":%d,\"wall_s\":%.3f,\"violations\":%d,",
               tag, (unsigned long long)(SW.setn ? SW.setn : 1), (unsigned long long)SW.calls, (unsigned long long)SW.runs, (unsigned long long)SW.cases,
               (unsigned long long)SW.setn, (SW.capped || SW.violations) ? "false" : "true", (int)SW.capped * 2, mcx_now() - SW.t0, SW.violations);
        printf("\"lines_ok\":%llu,\"lines_err\":%llu,\"lines_blank\":%llu,\"overlong\":%llu,\"ambiguous_eq\":%llu,\"ambiguous_lf\":%llu,\"notfound\":%llu,\"drain_err\":%llu,"
               "\"implicit_hits\":%llu,\"test_forms\":%llu,\"list_lines\":%llu,\"wvar_ok\":%llu,\"wvar_err\":%llu,\"rvar\":%llu,\"canary_checks\":%llu,",
               (unsigned long long)WS.lines_ok, (unsigned long long)WS.lines_err, (unsigned long long)WS.lines_blank, (unsigned long long)WS.overlong,
               (unsigned long long)WS.ambiguous_eq, (unsigned long long)WS.ambiguous_lf, (unsigned long long)WS.notfound, (unsigned long long)WS.drain_err,
               (unsigned long long)WS.implicit_hits, (unsigned long long)WS.test_forms, (unsigned long long)WS.list_lines, (unsigned long long)WS.wvar_ok,
               (unsigned long long)WS.wvar_err, (unsigned long long)WS.rvar, (unsigned long long)WS.canary_checks);
        printf("\"handler_calls\":[");
        for (int i = 0; i < 8; i++) printf("%s%llu", i ? "," : "", (unsigned long long)WS.handler_calls[i / 4][i % 4]);
        printf("],\"samples\":[");
        for (int i = 0; i < WS.nsamples; i++) { printf("%s\"", i ? "," : ""); sw_json_escape(WS.samples[i]); printf("\""); }
        printf("]");
        if (SW.violations) { printf(",\"replay\":\"%s\",\"msg\":\"", SW.replay); sw_json_escape(SW.msg); printf("\""); }
        printf("}\n");
        return SW.violations ? 1 : 0;
}

/* sample helper: remember an input/output pair of the run just made */
static void __attribute__((unused)) sw_sample(const uint8_t *bytes, int n, const char *note)
{
        if (WS.nsamples >= 6) return;
        char a[300], b[300];
        w_esc(a, sizeof a, bytes, n);
        w_esc(b, sizeof b, (const uint8_t *)w_output(), w_output_len());
        w_sample("%s: input '%s' -> output '%s' (agrees with reference model)", note, a, b);
}

#endif
