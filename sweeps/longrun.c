/* C13: long histories of the event queue (free-running counters narrower than size_t, capacities that do not divide 2^16):
 * 70000+ accepted events per run, the queue filled to the brim and drained each round, order and exactly-once delivery
 * checked by the event specification on every call. */
#include "sweep.h"

int main(int argc, char **argv)
{
        sw_init(argc, argv, "longrun");
        int rounds = sw_argi(argc, argv, "--events", 100000);
        int ring = (int)CAT_UNSOLICITED_CMD_BUFFER_SIZE;
        int idx = 0;
        for (int pat = 0; pat < 3; pat++)
                for (int shared = 0; shared < 2; shared++, idx++) {
                        if (idx % SW.nshards != SW.shard) continue;
                        struct wcmd *c = sw_table(3);
                        strcpy(c[0].name, "+K"); c[0].hmask = HM_U;
                        strcpy(c[1].name, "+a"); c[1].registered = 0; c[1].nvar = 1;
                        c[1].var[0] = (struct wvar){.type = CAT_VAR_UINT_DEC, .size = 1, .access = CAT_VAR_ACCESS_READ_ONLY};
                        strcpy(c[2].name, "+b"); c[2].registered = 0; c[2].hmask = HM_R | HM_T; c[2].nvar = 1;
                        c[2].var[0] = (struct wvar){.type = CAT_VAR_UINT_DEC, .size = 1, .access = CAT_VAR_ACCESS_READ_ONLY};
                        W.ncmd = 3;
                        sw_caps(12, shared);
                        W.line_max = 40; W.mon = P_ALL;
                        W.nev = 3;
                        W.ev[0].cmd = 1; W.ev[0].type = CAT_CMD_TYPE_READ;
                        W.ev[1].cmd = 2; W.ev[1].type = CAT_CMD_TYPE_READ;
                        W.ev[2].cmd = 2; W.ev[2].type = CAT_CMD_TYPE_TEST;
                        world_build();
                        world_init();
                        snprintf(SW.extra, sizeof SW.extra, "family=longrun ring=%d pattern=%d shared=%d events=%d", ring, pat, shared, rounds);
                        static const uint8_t none[1] = {0};
                        long accepted = 0;
                        for (long r = 0; accepted < rounds; r++) {
                                /* pattern 0: fill to the brim, one trigger too many, drain; 1: fill to ring-1 (at least 1), drain; 2: one event at a time with a command line in between */
                                int n = pat == 0 ? ring + 1 : pat == 1 ? (ring > 1 ? ring - 1 : 1) : 1;
                                for (int k = 0; k < n; k++) {
                                        mcx_violation_clear();
                                        do_trigger((int)((r + k) % 3), 0);
                                        if (mcx_violated()) goto bad;
                                        accepted++;
                                }
                                SW.cases++;
                                if (pat == 2 && (r & 7) == 0) { static const uint8_t ln[] = "AT+K\n"; if (sw_feed(ln, 5, NULL)) goto bad; }
                                else if (sw_feed(none, 0, NULL)) goto bad;
                        }
                        if (sw_expired()) break;
                        continue;
                bad:
                        goto out;
                }
out:;
        char tag[64];
        snprintf(tag, sizeof tag, "longrun-r%d-%d", ring, SW.shard);
        return sw_finish(tag);
}
