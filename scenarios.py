"""Scenario plans: for each property and tier, the list of shards (binary + arguments).
Every shard is an exhaustive exploration of one configuration; the union is the
property's explored space (see DESIGN.md section 5)."""
import itertools

DEV = r"\r\n\0?=\s\x80a,"       # deviation alphabet: CR LF NUL ? = space 0x80 lower-case-letter comma


def mcx(tag, ring=1, asan=False, **kw):
    args = []
    for k, v in kw.items():
        flag = "--" + k.replace("_", "-")
        if k in ("D",):
            flag = "--D"
        if k.startswith("codes_") or k.startswith("ecodes_"):
            flag = "--" + k.replace("_", "-")
        args += [flag, v]
    return {"tag": tag, "bin": ("mcxasan_r%d" if asan else "mcx_r%d") % ring, "args": args}


def sweep(tag, name, *args, asan=False):
    return {"tag": tag, "bin": ("swasan_" if asan else "sw_") + name, "args": list(args)}


# ---------------------------------------------------------------- tables

T_AMBIG = "+TA:UW;+TB:UR,vu1rw;Z:UT;+TAB:W"          # ambiguous '+', '+T', '+TA' exact-vs-prefix of +TAB
T_APT = ["A:U;AP:UW;+TEST:URWT", "AP:UW;A:U;+TEST:URWT", "+TEST:URWT;AP:UW;A:U", "A:U;+TEST:URWT;AP:UW", "AP:UW;+TEST:URWT;A:U", "+TEST:URWT;A:U;AP:UW"]
T_IMPL = "D:W,i;+O:T,o,vu1rw;+X:U;+OX:R"             # implicit write, only-test, exact/prefix pair


def c01_shards(tier):
    sh = []
    quick = tier == "quick"
    tables = [("ambig", T_AMBIG, "+TABZ"), ("impl", T_IMPL, "+DOX")] + [("apt%d" % i, t, "AP+TES") for i, t in enumerate(T_APT if not quick else T_APT[:2])]
    caps = [(6, 0), (7, 0), (6, 1), (16, 0)] if not quick else [(6, 0), (6, 1), (16, 0)]
    for (tn, t, alpha), (cap, shared) in itertools.product(tables, caps):
        sh.append(mcx("lines-%s-cap%d-sh%d" % (tn, cap, shared), prop="C01", table=t, cap=cap, shared=shared, name_alpha=alpha, args_alpha="1A",
                      max_name=3 if quick else 4, max_args=(cap + 1) if cap <= 7 else 3, D=1 if quick else 2, dev=DEV, lines=2, crlf=1, blank=1, lower=0,
                      refuse_read=1, refuse_write=1, codes_W="OK,ERROR,NEXT,HOLD", codes_R="OK,DATA_OK,DATA_NEXT,ERROR", codes_U="OK,ERROR,LIST,HOLD",
                      codes_T="OK,DATA_OK,ERROR", max_inv=1, act="hold", mon="C01"))
    # unrestricted short byte strings
    for cap in ([6] if quick else [6, 7]):
        sh.append(mcx("free-cap%d" % cap, prop="C01", table=T_AMBIG, cap=cap, gen_mode="free", free_alpha=r"AT+=?\r\0Z,", free_len=7 if quick else 9, lines=2,
                      refuse_read=1, refuse_write=1, codes_W="OK,ERROR", codes_U="OK,ERROR", mon="C01"))
    return sh


PLANS = {}


def plan(prop, tier):
    f = PLANS.get(prop)
    if not f:
        raise SystemExit("no plan for " + prop)
    return f(tier)


def p_c01(tier):
    return {"shards": c01_shards(tier), "require": ["lines_done", "ambiguous_eq", "ambiguous_lf", "overlong", "drain_err", "notfound", "lines_hold"],
            "technique": "explicit-state model checking of the real parser (DFS with state matching over all input bytes, io refusals, handler codes)",
            "bounds": "tables ambig/impl/A-AP-+TEST orders; cap 6,7,16 shared+separate; grammar lines with <=%d deviations, names <=%d, 2 lines; all byte strings <=%d over 10 symbols"
                      % ((1, 3, 5) if tier == "quick" else (2, 4, 7)),
            "assumptions": ["handlers eventually return a terminal code (at most 1 NEXT per line)", "descriptor inside the supported domain"]}


PLANS["C01"] = p_c01
