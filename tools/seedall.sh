#!/bin/sh
# seedall.sh [suffix-regex]: re-validates every stored seed (patch still applies to /repo HEAD, suite passes, demo discriminates)
# and re-runs the targeted property's quick check against it; updates seeded/*/meta.json.  About 1.5 minutes per seed;
# SEEDALL_FLAGS=--fast first tries only the shard that reported the seed last time (about 20 s per seed).
cd "$(dirname "$0")/.." || exit 2
for d in seeded/C*; do
    id=$(basename "$d")
    case "$id" in *$1*) ;; *) continue ;; esac
    if grep -q "domain_note\|not_reported_note" "$d/meta.json" 2>/dev/null; then echo "$id: not claimed / not reported (see meta.json), not run"; continue; fi
    python3 tools/seedtest.py "$id" --keep $SEEDALL_FLAGS 2>&1 | grep -v conda | tr '\n' ' ' | cut -c1-330
    echo
done
