#define _GNU_SOURCE
#include "mcx.h"
#include <stdarg.h>
#include <stdlib.h>
#include <string.h>
#include <time.h>
#include <errno.h>
#include <sys/stat.h>
#include <unistd.h>

int mcx_verbose = 0;
int mcx_skip_confirm = 0;
int (*mcx_default_choice)(int n) = NULL;

double mcx_now(void)
{
        struct timespec ts;
        clock_gettime(CLOCK_MONOTONIC, &ts);
        return ts.tv_sec + ts.tv_nsec * 1e-9;
}

/* ------------------------------------------------------------------ */
/* regions                                                             */

#define MAX_REGIONS 256
static struct { uint8_t *p; size_t n; const char *name; } regions[MAX_REGIONS];
static int n_regions;
static size_t total_size;

void mcx_region_reset(void) { n_regions = 0; total_size = 0; }

void mcx_region(void *p, size_t n, const char *name)
{
        if (n_regions >= MAX_REGIONS)
                mcx_fatal("too many regions");
        regions[n_regions].p = p;
        regions[n_regions].n = n;
        regions[n_regions].name = name;
        n_regions++;
        total_size += n;
}

size_t mcx_state_size(void) { return total_size; }

void mcx_save(uint8_t *dst)
{
        for (int i = 0; i < n_regions; i++) {
                memcpy(dst, regions[i].p, regions[i].n);
                dst += regions[i].n;
        }
}

void mcx_restore(const uint8_t *src)
{
        for (int i = 0; i < n_regions; i++) {
                memcpy(regions[i].p, src, regions[i].n);
                src += regions[i].n;
        }
}

static inline uint64_t rotl(uint64_t x, int r) { return (x << r) | (x >> (64 - r)); }
static inline uint64_t fmix(uint64_t k)
{
        k ^= k >> 33; k *= 0xff51afd7ed558ccdULL; k ^= k >> 33; k *= 0xc4ceb9fe1a85ec53ULL; k ^= k >> 33;
        return k;
}

/* two-lane 128-bit hash (murmur3-x64-128 style) */
static void hash_update(uint64_t *h1, uint64_t *h2, const uint8_t *p, size_t n)
{
        const uint64_t c1 = 0x87c37b91114253d5ULL, c2 = 0x4cf5ad432745937fULL;
        while (n >= 16) {
                uint64_t k1, k2;
                memcpy(&k1, p, 8); memcpy(&k2, p + 8, 8);
                k1 *= c1; k1 = rotl(k1, 31); k1 *= c2; *h1 ^= k1;
                *h1 = rotl(*h1, 27); *h1 += *h2; *h1 = *h1 * 5 + 0x52dce729;
                k2 *= c2; k2 = rotl(k2, 33); k2 *= c1; *h2 ^= k2;
                *h2 = rotl(*h2, 31); *h2 += *h1; *h2 = *h2 * 5 + 0x38495ab5;
                p += 16; n -= 16;
        }
        if (n) {
                uint8_t tail[16] = {0};
                memcpy(tail, p, n);
                tail[15] ^= (uint8_t)n;
                uint64_t k1, k2;
                memcpy(&k1, tail, 8); memcpy(&k2, tail + 8, 8);
                k1 *= c1; k1 = rotl(k1, 31); k1 *= c2; *h1 ^= k1;
                *h1 = rotl(*h1, 27); *h1 += *h2; *h1 = *h1 * 5 + 0x52dce729;
                k2 *= c2; k2 = rotl(k2, 33); k2 *= c1; *h2 ^= k2;
                *h2 = rotl(*h2, 31); *h2 += *h1; *h2 = *h2 * 5 + 0x38495ab5;
        }
}

mcx_hash_t mcx_hash_bytes(const void *p, size_t n, uint64_t seed)
{
        uint64_t h1 = seed, h2 = seed ^ 0x9e3779b97f4a7c15ULL;
        hash_update(&h1, &h2, p, n);
        h1 ^= n; h2 ^= n; h1 += h2; h2 += h1; h1 = fmix(h1); h2 = fmix(h2); h1 += h2; h2 += h1;
        return (mcx_hash_t){h1, h2};
}

mcx_hash_t mcx_hash_state(void)
{
        uint64_t h1 = 0x1234567, h2 = 0x89abcdef;
        for (int i = 0; i < n_regions; i++) {
                hash_update(&h1, &h2, regions[i].p, regions[i].n);
                h1 ^= regions[i].n * 0x9e3779b97f4a7c15ULL;
        }
        h1 ^= total_size; h2 ^= total_size; h1 += h2; h2 += h1; h1 = fmix(h1); h2 = fmix(h2); h1 += h2; h2 += h1;
        return (mcx_hash_t){h1, h2};
}

/* ------------------------------------------------------------------ */
/* choice points                                                       */

static struct mcx_choices *cur;

void mcx_choices_begin(struct mcx_choices *c) { cur = c; c->pos = 0; }
void mcx_choices_end(void) { cur = NULL; }

int mcx_choose(int n)
{
        if (n <= 0)
                mcx_fatal("mcx_choose(%d)", n);
        if (n > 255)
                mcx_fatal("mcx_choose arity %d too large", n);
        if (cur == NULL) {
                /* outside a controlled transition: default policy */
                return mcx_default_choice ? mcx_default_choice(n) : 0;
        }
        struct mcx_choices *c = cur;
        if (c->pos < c->len) {
                if (c->arity[c->pos] != 0 && c->arity[c->pos] != n)
                        mcx_fatal("choice arity diverged on replay of a prefix: position %d recorded %d now %d "
                                  "(uncaptured nondeterminism)", c->pos, c->arity[c->pos], n);
                c->arity[c->pos] = (uint8_t)n;
                if (c->val[c->pos] >= n)
                        mcx_fatal("replayed choice %d out of range %d at position %d", c->val[c->pos], n, c->pos);
                return c->val[c->pos++];
        }
        if (c->len >= MCX_MAX_CHOICES)
                mcx_fatal("more than %d choice points in one transition", MCX_MAX_CHOICES);
        int v = mcx_default_choice ? mcx_default_choice(n) : 0;
        c->arity[c->len] = (uint8_t)n;
        c->val[c->len] = (uint8_t)v;
        c->len++;
        c->pos++;
        return v;
}

int mcx_choices_next(struct mcx_choices *c)
{
        /* positions beyond pos were not reached in the last run: drop them */
        if (c->pos < c->len)
                c->len = c->pos;
        while (c->len > 0 && c->val[c->len - 1] + 1 >= c->arity[c->len - 1])
                c->len--;
        if (c->len == 0)
                return 0;
        c->val[c->len - 1]++;
        return 1;
}

/* ------------------------------------------------------------------ */
/* violations                                                          */

static int violated;
static char v_prop[16];
static char v_msg[1024];

void mcx_violation(const char *prop, const char *fmt, ...)
{
        if (violated)
                return;
        violated = 1;
        snprintf(v_prop, sizeof v_prop, "%s", prop);
        va_list ap;
        va_start(ap, fmt);
        vsnprintf(v_msg, sizeof v_msg, fmt, ap);
        va_end(ap);
}
int mcx_violated(void) { return violated; }
const char *mcx_violation_prop(void) { return v_prop; }
const char *mcx_violation_msg(void) { return v_msg; }
void mcx_violation_clear(void) { violated = 0; v_prop[0] = 0; v_msg[0] = 0; }

void mcx_fatal(const char *fmt, ...)
{
        va_list ap;
        va_start(ap, fmt);
        fprintf(stderr, "MCX HARNESS ERROR: ");
        vfprintf(stderr, fmt, ap);
        fprintf(stderr, "\n");
        va_end(ap);
        fflush(NULL);
        _exit(2);
}

/* ------------------------------------------------------------------ */
/* visited set: open addressing, 128-bit keys, dense ids                */

struct vent { uint64_t a, b; };
static struct vent *vtab;
static uint64_t vcap, vcount;

static void vt_init(uint64_t cap)
{
        free(vtab);
        vcap = 1;
        while (vcap < cap) vcap <<= 1;
        vtab = calloc(vcap, sizeof *vtab);
        if (!vtab) mcx_fatal("out of memory for visited set (%llu entries)", (unsigned long long)vcap);
        vcount = 0;
}

static void vt_grow(void);

/* returns 1 if newly inserted. (a,b)==(0,0) is remapped */
static int vt_insert(mcx_hash_t h)
{
        if (h.a == 0 && h.b == 0) h.b = 1;
        if ((vcount + 1) * 10 > vcap * 7)
                vt_grow();
        uint64_t i = h.a & (vcap - 1);
        for (;;) {
                if (vtab[i].a == 0 && vtab[i].b == 0) {
                        vtab[i].a = h.a; vtab[i].b = h.b;
                        vcount++;
                        return 1;
                }
                if (vtab[i].a == h.a && vtab[i].b == h.b)
                        return 0;
                i = (i + 1) & (vcap - 1);
        }
}

static void vt_grow(void)
{
        struct vent *old = vtab;
        uint64_t ocap = vcap;
        vcap <<= 1;
        vtab = calloc(vcap, sizeof *vtab);
        if (!vtab) mcx_fatal("out of memory growing visited set to %llu", (unsigned long long)vcap);
        vcount = 0;
        for (uint64_t i = 0; i < ocap; i++)
                if (old[i].a || old[i].b)
                        vt_insert((mcx_hash_t){old[i].a, old[i].b});
        free(old);
}

int64_t mcx_state_id(mcx_hash_t h)
{
        if (!vtab) return -1;
        if (h.a == 0 && h.b == 0) h.b = 1;
        uint64_t i = h.a & (vcap - 1);
        for (;;) {
                if (vtab[i].a == 0 && vtab[i].b == 0) return -1;
                if (vtab[i].a == h.a && vtab[i].b == h.b) return (int64_t)i;
                i = (i + 1) & (vcap - 1);
        }
}
uint64_t mcx_num_states(void) { return vcount; }

/* ------------------------------------------------------------------ */
/* replay files                                                        */

static char last_replay[1024];
const char *mcx_last_replay_path(void) { return last_replay; }

struct pstep { int action; struct mcx_choices ch; };

static void write_replay(const struct mcx_model *m, const struct mcx_opts *o, struct pstep *steps, int n)
{
        const char *dir = o->replay_dir ? o->replay_dir : "replays";
        mkdir(dir, 0777);
        /* name from the violation: prop + hash of path */
        uint64_t hh = 1469598103934665603ULL;
        for (int i = 0; i < n; i++) {
                hh = (hh ^ (uint64_t)steps[i].action) * 1099511628211ULL;
                for (int k = 0; k < steps[i].ch.len; k++)
                        hh = (hh ^ steps[i].ch.val[k]) * 1099511628211ULL;
        }
        snprintf(last_replay, sizeof last_replay, "%s/%s_%s_%016llx.replay", dir, v_prop, o->tag ? o->tag : "x",
                 (unsigned long long)hh);
        FILE *f = fopen(last_replay, "w");
        if (!f) mcx_fatal("cannot write %s: %s", last_replay, strerror(errno));
        fprintf(f, "# mcx replay file\n");
        if (o->header) fprintf(f, "%s", o->header);
        fprintf(f, "prop %s\n", v_prop);
        fprintf(f, "msg %s\n", v_msg);
        fprintf(f, "steps %d\n", n);
        /* descriptions need the state before each step: re-run */
        m->init();
        mcx_violation_clear();
        for (int i = 0; i < n; i++) {
                char d[256] = "";
                if (m->describe) m->describe(steps[i].action, d, sizeof d);
                fprintf(f, "%d %d", steps[i].action, steps[i].ch.len);
                for (int k = 0; k < steps[i].ch.len; k++) fprintf(f, " %d", steps[i].ch.val[k]);
                fprintf(f, " | %s", d);
                struct mcx_choices c = steps[i].ch;
                memset(c.arity, 0, sizeof c.arity);
                mcx_choices_begin(&c);
                m->step(steps[i].action);
                mcx_choices_end();
                if (m->describe_result) { char r[512] = ""; m->describe_result(r, sizeof r); fprintf(f, " -> %s", r); }
                fprintf(f, "\n");
        }
        fclose(f);
}

/* run a path from init; record per-step hashes; returns 1 if violation at last step */
static int run_path(const struct mcx_model *m, struct pstep *steps, int n, mcx_hash_t *hashes, int *viol_at)
{
        m->init();
        mcx_violation_clear();
        *viol_at = -1;
        for (int i = 0; i < n; i++) {
                struct mcx_choices c = steps[i].ch;
                memset(c.arity, 0, sizeof c.arity);
                mcx_choices_begin(&c);
                m->step(steps[i].action);
                mcx_choices_end();
                if (c.len != steps[i].ch.len || c.pos != c.len)
                        mcx_fatal("replay divergence at step %d: %d choice points taken, %d recorded", i, c.pos,
                                  steps[i].ch.len);
                if (hashes) hashes[i] = mcx_hash_state();
                if (mcx_violated()) { *viol_at = i; return 1; }
        }
        return 0;
}

int mcx_replay_file(const struct mcx_model *m, const char *path, int verbose)
{
        FILE *f = fopen(path, "r");
        if (!f) mcx_fatal("cannot open %s", path);
        char line[4096];
        int n = -1;
        while (fgets(line, sizeof line, f)) {
                if (sscanf(line, "steps %d", &n) == 1) break;
        }
        if (n < 0) mcx_fatal("bad replay file %s", path);
        struct pstep *steps = calloc((size_t)n + 1, sizeof *steps);
        for (int i = 0; i < n; i++) {
                if (!fgets(line, sizeof line, f)) mcx_fatal("short replay file");
                char *p = line;
                int len;
                steps[i].action = (int)strtol(p, &p, 10);
                len = (int)strtol(p, &p, 10);
                steps[i].ch.len = len;
                for (int k = 0; k < len; k++) steps[i].ch.val[k] = (uint8_t)strtol(p, &p, 10);
        }
        fclose(f);
        int old = mcx_verbose;
        mcx_verbose = verbose;
        mcx_hash_t *h1 = calloc((size_t)n + 1, sizeof *h1), *h2 = calloc((size_t)n + 1, sizeof *h2);
        int va, vb;
        int r1 = run_path(m, steps, n, h1, &va);
        char prop[16], msg[1024];
        snprintf(prop, sizeof prop, "%s", v_prop);
        snprintf(msg, sizeof msg, "%s", v_msg);
        mcx_verbose = 0;
        int r2 = run_path(m, steps, n, h2, &vb);
        mcx_verbose = old;
        if (r1 != r2 || va != vb) { fprintf(stderr, "replay not deterministic\n"); return 2; }
        int upto = (va >= 0) ? va + 1 : n;
        for (int i = 0; i < upto; i++)
                if (h1[i].a != h2[i].a || h1[i].b != h2[i].b) { fprintf(stderr, "replay state hash differs at step %d\n", i); return 2; }
        if (r1) {
                printf("REPLAY: violation reproduced at step %d: property=%s %s\n", va, prop, msg);
                return 1;
        }
        printf("REPLAY: no violation along %d steps\n", n);
        free(steps); free(h1); free(h2);
        return 0;
}

/* ------------------------------------------------------------------ */
/* explorer                                                            */

struct frame {
        int action, nact, started;
        struct mcx_choices ch;
        mcx_hash_t hash;
        size_t off, clen;      /* compressed snapshot in the arena */
};

/* zero-run compression of snapshots: records of (u16 literal count, u16 zero count, literals) */
static size_t rle_pack(const uint8_t *src, size_t n, uint8_t *dst)
{
        size_t i = 0, o = 0;
        while (i < n) {
                size_t ls = i;
                /* literals until a run of >= 4 zeros (or end) */
                while (i < n && i - ls < 65535) {
                        if (src[i] == 0) {
                                size_t z = i;
                                while (z < n && src[z] == 0 && z - i < 8) z++;
                                if (z - i >= 4 || z == n) break;
                        }
                        i++;
                }
                size_t nl = i - ls;
                size_t zs = i;
                while (i < n && src[i] == 0 && i - zs < 65535) i++;
                size_t nz = i - zs;
                dst[o++] = (uint8_t)(nl & 0xff); dst[o++] = (uint8_t)(nl >> 8);
                dst[o++] = (uint8_t)(nz & 0xff); dst[o++] = (uint8_t)(nz >> 8);
                memcpy(dst + o, src + ls, nl);
                o += nl;
        }
        return o;
}

static void rle_unpack(const uint8_t *src, size_t clen, uint8_t *dst, size_t n)
{
        size_t i = 0, o = 0;
        while (i < clen) {
                size_t nl = src[i] | ((size_t)src[i + 1] << 8), nz = src[i + 2] | ((size_t)src[i + 3] << 8);
                i += 4;
                if (o + nl + nz > n) mcx_fatal("snapshot unpack overflow");
                memcpy(dst + o, src + i, nl);
                i += nl; o += nl;
                memset(dst + o, 0, nz);
                o += nz;
        }
        if (o != n) mcx_fatal("snapshot unpack size mismatch");
}

/* ---- crash reporting: a fatal signal inside a transition is a violation of memory safety (C03) with a replayable path ---- */
#include <signal.h>
#include <sys/time.h>
static struct frame *g_fr; static int *g_depth; static const struct mcx_opts *g_opts; static struct mcx_stats *g_st;
const char *mcx_crash_prop = "C03";

static uint64_t wd_last; static int wd_strikes;
static volatile int g_in_step; static volatile uint64_t g_step_seq;
static void on_crash(int sig);
static void on_watchdog(int sig)
{
        (void)sig;
        if (!g_st) return;
        /* only time spent inside one and the same call of the model's step function counts */
        if (g_in_step && g_step_seq == wd_last) { if (++wd_strikes >= 6) on_crash(SIGALRM); }
        else { wd_strikes = 0; wd_last = g_step_seq; }
}

static void on_crash(int sig)
{
        signal(sig, SIG_DFL);
        if (!g_fr || !g_depth || !g_opts) _exit(2);
        int n = *g_depth;
        const char *dir = g_opts->replay_dir ? g_opts->replay_dir : "replays";
        mkdir(dir, 0777);
        uint64_t hh = 1469598103934665603ULL;
        for (int i = 0; i < n; i++) { hh = (hh ^ (uint64_t)g_fr[i].action) * 1099511628211ULL; for (int k = 0; k < g_fr[i].ch.len; k++) hh = (hh ^ g_fr[i].ch.val[k]) * 1099511628211ULL; }
        char path[1024], msg[256];
        snprintf(path, sizeof path, "%s/%s_%s_crash_%016llx.replay", dir, mcx_crash_prop, g_opts->tag ? g_opts->tag : "x", (unsigned long long)hh);
        snprintf(msg, sizeof msg, "C03: fatal signal %d (%s) while executing the last step of this path on the real code", sig, sig == SIGSEGV ? "SIGSEGV" : sig == SIGABRT ? "SIGABRT (assertion or abort)" : sig == SIGBUS ? "SIGBUS" : sig == SIGFPE ? "SIGFPE" : sig == SIGALRM ? "watchdog: the call did not return within 30 s" : "signal");
        FILE *f = fopen(path, "w");
        if (f) {
                fprintf(f, "# mcx replay file (crash)\n");
                if (g_opts->header) fprintf(f, "%s", g_opts->header);
                fprintf(f, "prop %s\nmsg %s\nsteps %d\n", mcx_crash_prop, msg, n);
                for (int i = 0; i < n; i++) {
                        fprintf(f, "%d %d", g_fr[i].action, g_fr[i].ch.len);
                        for (int k = 0; k < g_fr[i].ch.len; k++) fprintf(f, " %d", g_fr[i].ch.val[k]);
                        fprintf(f, " |\n");
                }
                fclose(f);
        }
        printf("{\"tag\":\"%s\",\"states\":%llu,\"transitions\":%llu,\"exhaustive\":false,\"capped\":0,\"wall_s\":0,\"violations\":1,\"replay\":\"%s\",\"msg\":\"%s\"}\n",
               g_opts->tag ? g_opts->tag : "x", (unsigned long long)(g_st ? g_st->states : 1), (unsigned long long)(g_st ? g_st->transitions : 1), path, msg);
        fflush(stdout);
        _exit(1);
}

int mcx_explore(const struct mcx_model *m, const struct mcx_opts *o, struct mcx_stats *st)
{
        double t0 = mcx_now();
        memset(st, 0, sizeof *st);
        uint32_t max_depth = o->max_depth ? o->max_depth : 8000000;
        m->init();
        mcx_violation_clear();
        size_t ssz = mcx_state_size();
        size_t cap = 1024;
        struct frame *fr = malloc(cap * sizeof *fr);
        size_t acap = 1 << 20, atop = 0;
        uint8_t *arena = malloc(acap);
        uint8_t *scratch = malloc(ssz + 16), *packed = malloc(ssz * 2 + 64);
        if (!fr || !arena || !scratch || !packed) mcx_fatal("oom stack");
        vt_init(1 << 16);
        int depth = 0;
        int nviol = 0;
        g_fr = fr; g_depth = &depth; g_opts = o; g_st = st;
        signal(SIGSEGV, on_crash); signal(SIGBUS, on_crash); signal(SIGFPE, on_crash); signal(SIGABRT, on_crash); signal(SIGILL, on_crash);
        { struct itimerval itv = {{5, 0}, {5, 0}}; wd_last = 0; wd_strikes = 0; signal(SIGALRM, on_watchdog); setitimer(ITIMER_REAL, &itv, NULL); }

#define FRAME(i) (&fr[i])
#define PUSH_SNAP(f) do { \
                mcx_save(scratch); \
                size_t _cl = rle_pack(scratch, ssz, packed); \
                if (atop + _cl > acap) { while (atop + _cl > acap) acap *= 2; arena = realloc(arena, acap); if (!arena) mcx_fatal("oom arena"); } \
                memcpy(arena + atop, packed, _cl); (f)->off = atop; (f)->clen = _cl; atop += _cl; \
        } while (0)
        struct frame *f = FRAME(0);
        memset(f, 0, sizeof *f);
        PUSH_SNAP(f);
        f->hash = mcx_hash_state();
        f->nact = m->n_actions();
        vt_insert(f->hash);
        st->states = 1;
        if (m->on_new_state) m->on_new_state();
        depth = 1;
        uint64_t tick = 0;

        while (depth > 0) {
                f = FRAME(depth - 1);
                if (!f->started) {
                        f->started = 1;
                        f->action = 0;
                        f->ch.len = 0; f->ch.pos = 0;
                        if (f->nact == 0) { depth--; atop = f->off; continue; }
                } else if (!mcx_choices_next(&f->ch)) {
                        f->action++;
                        f->ch.len = 0; f->ch.pos = 0;
                        if (f->action >= f->nact) { depth--; atop = f->off; continue; }
                }
                if ((++tick & 0xfff) == 0) {
                        if (o->deadline_s > 0 && mcx_now() - t0 > o->deadline_s) { st->capped = 2; break; }
                }
                rle_unpack(arena + f->off, f->clen, scratch, ssz);
                mcx_restore(scratch);
                mcx_choices_begin(&f->ch);
                g_step_seq++; g_in_step = 1;
                int r = m->step(f->action);
                g_in_step = 0;
                mcx_choices_end();
                if (f->ch.pos < f->ch.len)
                        mcx_fatal("transition took fewer choice points (%d) than its prefix (%d)", f->ch.pos, f->ch.len);
                st->transitions++;
                if (mcx_violated()) {
                        nviol++;
                        /* build path */
                        int n = depth;
                        struct pstep *steps = calloc((size_t)n, sizeof *steps);
                        for (int i = 0; i < n; i++) { steps[i].action = FRAME(i)->action; steps[i].ch = FRAME(i)->ch; }
                        char prop[16], msg[1024];
                        snprintf(prop, sizeof prop, "%s", v_prop);
                        snprintf(msg, sizeof msg, "%s", v_msg);
                        /* replay twice from the initial state, without the explorer */
                        mcx_hash_t *h1 = calloc((size_t)n, sizeof *h1), *h2 = calloc((size_t)n, sizeof *h2);
                        int va, vb;
                        int skip = mcx_skip_confirm;
                        mcx_skip_confirm = 0;
                        int r1 = run_path(m, steps, n, h1, &va);
                        int same1 = r1 && va == n - 1 && strcmp(prop, v_prop) == 0;
                        int r2 = run_path(m, steps, n, h2, &vb);
                        int same2 = r2 && vb == n - 1 && strcmp(prop, v_prop) == 0;
                        /* sanitizers report a faulty site once per process: such a violation cannot re-fire on replay; the path must still be deterministic */
                        if (skip && !r1 && !r2) same1 = same2 = 1;
                        mcx_skip_confirm = 0;
                        if (!same1 || !same2)
                                mcx_fatal("violation of %s (%s) did not reproduce on replay from the initial state "
                                          "(r1=%d at %d, r2=%d at %d of %d): harness nondeterminism", prop, msg, r1, va, r2, vb, n);
                        for (int i = 0; i + 1 < n; i++) {
                                mcx_hash_t want = FRAME(i + 1)->hash;
                                if (h1[i].a != want.a || h1[i].b != want.b || h2[i].a != want.a || h2[i].b != want.b)
                                        mcx_fatal("replay reached a different state at step %d than the search did "
                                                  "(state not fully captured)", i);
                        }
                        write_replay(m, o, steps, n);
                        /* restore violation text for the caller */
                        violated = 1;
                        snprintf(v_prop, sizeof v_prop, "%s", prop);
                        snprintf(v_msg, sizeof v_msg, "%s", msg);
                        free(steps); free(h1); free(h2);
                        if (o->stop_at_first) break;
                        mcx_violation_clear();
                        continue;
                }
                mcx_hash_t post = mcx_hash_state();
                if (m->on_transition) m->on_transition(f->action, &f->ch, f->hash, post);
                if (r == 1) { st->pruned++; continue; }
                if (!vt_insert(post)) { st->revisits++; continue; }
                st->states++;
                if (o->max_states && st->states >= o->max_states) { st->capped = 1; break; }
                if ((uint32_t)depth >= max_depth) { st->capped = 3; break; }
                if ((size_t)depth >= cap) {
                        cap *= 2;
                        fr = realloc(fr, cap * sizeof *fr);
                        if (!fr) mcx_fatal("oom stack");
                        g_fr = fr;
                }
                struct frame *nf = FRAME(depth);
                memset(nf, 0, sizeof *nf);
                PUSH_SNAP(nf);
                nf->hash = post;
                nf->nact = m->n_actions();
                depth++;
                if ((uint64_t)depth > st->max_depth) st->max_depth = (uint64_t)depth;
                if (m->on_new_state) {
                        m->on_new_state();
                        if (mcx_violated())
                                mcx_fatal("on_new_state must not raise violations");
                }
        }
        { struct itimerval itv = {{0, 0}, {0, 0}}; setitimer(ITIMER_REAL, &itv, NULL); signal(SIGALRM, SIG_DFL); }
        g_fr = NULL;
        signal(SIGSEGV, SIG_DFL); signal(SIGBUS, SIG_DFL); signal(SIGFPE, SIG_DFL); signal(SIGABRT, SIG_DFL); signal(SIGILL, SIG_DFL);
        st->exhaustive = (depth == 0 && st->capped == 0 && nviol == 0);
        st->wall_s = mcx_now() - t0;
        free(fr); free(arena); free(scratch); free(packed);
        return nviol;
}

uint64_t mcx_forall_choices(const struct mcx_model *m, int action, int (*after)(void *ctx), void *ctx)
{
        size_t ssz = mcx_state_size();
        uint8_t *snap = malloc(ssz);
        mcx_save(snap);
        struct mcx_choices c;
        memset(&c, 0, sizeof c);
        uint64_t runs = 0;
        do {
                mcx_restore(snap);
                mcx_choices_begin(&c);
                m->step(action);
                mcx_choices_end();
                runs++;
                if (after && after(ctx)) break;
                if (mcx_violated()) break;
        } while (mcx_choices_next(&c));
        free(snap);
        return runs;
}
