/* F6 (C12): cat.h documents the io contract as "read: return 1 if byte read successfully".
 * read_cmd_char() treated only the value 0 as "no byte": a read callback that reports "nothing
 * available" with any other value (-1 from a non-blocking read(2), say) made the parser consume
 * the stale character cell as if it were input.  The twin write path already tests "!= 1".
 *
 *   gcc -I /repo/src findings/F6_read_refusal_value.c /repo/src/cat.c -o /tmp/f6 && /tmp/f6
 *
 * Expected (and after the fix): the two schedules give the same output "\nOK\n".
 * Before the fix schedule B ("not yet" = -1 between the bytes) prints "\nERROR\n". */
#include "cat.h"
#include <stdio.h>
#include <string.h>

static const char *in; static int pos, gap, tick, noval;
static char out[64]; static int on;
static int wr(char c) { out[on++] = c; out[on] = 0; return 1; }
static int rd(char *c)
{
        if (gap && (tick++ % 2)) return noval;            /* every other attempt: no byte yet */
        if (!in[pos]) return noval;
        *c = in[pos++];
        return 1;
}
static cat_return_state run(const struct cat_command *c) { (void)c; return CAT_RETURN_STATE_OK; }

static const char *go(int with_gaps, int value)
{
        static struct cat_command cmds[] = {{.name = "+GO", .run = run}};
        static struct cat_command_group g = {.cmd = cmds, .cmd_num = 1}, *gs[] = {&g};
        static uint8_t buf[32];
        static struct cat_descriptor d = {.cmd_group = gs, .cmd_group_num = 1, .buf = buf, .buf_size = sizeof buf};
        static struct cat_io_interface io = {.write = wr, .read = rd};
        struct cat_object at;
        in = "AT+GO\n"; pos = 0; gap = with_gaps; tick = 0; noval = value; on = 0; out[0] = 0;
        cat_init(&at, &d, &io, NULL);
        for (int i = 0; i < 200; i++) cat_service(&at);
        return out;
}

int main(void)
{
        char a[64], b[64];
        strcpy(a, go(0, 0));
        strcpy(b, go(1, -1));
        printf("all bytes at once : %s\n'not yet' = -1    : %s\n", a, b);
        if (strcmp(a, b)) { printf("F6: output depends on how 'no byte yet' is signalled\n"); return 1; }
        printf("ok\n");
        return 0;
}
